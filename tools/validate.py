#!/usr/bin/env python3
"""Validate MANIFEST.json and evidence files against the schemas (run with python3-vt: has jsonschema)."""
import json, sys, glob
import jsonschema
ok = True
m = json.load(open('/verif/MANIFEST.json'))
jsonschema.validate(m, json.load(open('/root/.vp/MANIFEST.schema.json')))
es = json.load(open('/root/.vp/EVIDENCE.schema.json'))
for c in m['checks']:
    try:
        jsonschema.validate(json.load(open(c['evidence_file'])), es)
        print('ok', c['evidence_file'])
    except Exception as e:
        ok = False
        print('BAD', c['evidence_file'], str(e)[:300])
props = [json.loads(l)['id'] for l in open('/verif/properties.jsonl')]
claimed = [c['property_id'] for c in m['checks']]
na = [n['property_id'] for n in m.get('not_applicable', [])]
assert sorted(claimed + na) == sorted(props), (claimed, na)
print('manifest ok; claimed', claimed)
sys.exit(0 if ok else 1)
