#!/usr/bin/env python3
"""Apply every seeded change under /verif/seeded to /repo, run the quick check of its property, undo it.
Writes the outcome into seeded/<id>/result.json.  Evidence/replays of these runs go to a scratch dir."""
import json, os, subprocess, sys, tempfile, shutil
V = os.path.dirname(os.path.dirname(os.path.abspath(__file__)))
only = sys.argv[1:] 
ok = True
for n in sorted(os.listdir(os.path.join(V, "seeded"))):
    if only and n not in only:
        continue
    d = os.path.join(V, "seeded", n)
    meta = json.load(open(os.path.join(d, "meta.json")))
    prop = meta["property"]
    assert subprocess.run(["git", "-C", "/repo", "status", "--porcelain"], capture_output=True, text=True).stdout.strip() == "", "/repo not clean"
    tmp = tempfile.mkdtemp(prefix="seeded-", dir="/dev/shm")
    try:
        subprocess.run(["git", "-C", "/repo", "apply", os.path.join(d, "patch.diff")], check=True)
        env = dict(os.environ, VERIF_EVIDENCE_DIR=tmp, VERIF_REPLAY_DIR=tmp)
        p = subprocess.run([os.path.join(V, "check"), prop, "--tier", "quick"], env=env, capture_output=True, text=True)
    finally:
        subprocess.run(["git", "-C", "/repo", "checkout", "--", "."], check=True)
        shutil.rmtree(tmp, ignore_errors=True)
    sigs = [l.strip() for l in p.stdout.splitlines() if l.strip().startswith("signature=")]
    caught = p.returncode == 1 and "VIOLATION property=" in p.stdout
    json.dump({"check": f"./check {prop} --tier quick", "exit": p.returncode, "caught": caught, "signatures": [s[:300] for s in sigs[:3]]},
              open(os.path.join(d, "result.json"), "w"), indent=1)
    print(f"{n:8s} {prop} exit={p.returncode} caught={caught} {sigs[:1]}"[:260], flush=True)
    ok = ok and caught
sys.exit(0 if ok else 1)
