#!/usr/bin/env python3
"""Apply every seeded change under /verif/seeded to /repo, run the quick check of its property, undo it.
Writes the outcome into seeded/<id>/result.json.  Evidence/replays of these runs go to a scratch dir."""
import json, os, subprocess, sys, tempfile, shutil
V = os.path.dirname(os.path.dirname(os.path.abspath(__file__)))
args = sys.argv[1:]
scratch_mode = "--scratch" in args   # patch a scratch copy of /repo/tatsu (VERIF_REPO) instead of /repo itself
only = [a for a in args if not a.startswith("--")]
ok = True
for n in sorted(os.listdir(os.path.join(V, "seeded"))):
    if only and n not in only:
        continue
    d = os.path.join(V, "seeded", n)
    meta = json.load(open(os.path.join(d, "meta.json")))
    prop = meta["property"]
    if meta.get("void"):
        print(f"{n:8s} {prop} skipped: {meta['void'][:120]}", flush=True)
        continue
    tmp = tempfile.mkdtemp(prefix="seeded-", dir="/dev/shm")
    try:
        env = dict(os.environ, VERIF_EVIDENCE_DIR=tmp, VERIF_REPLAY_DIR=tmp)
        if scratch_mode:
            tree = os.path.join(tmp, "tree")
            shutil.copytree("/repo/tatsu", os.path.join(tree, "tatsu"), ignore=shutil.ignore_patterns("__pycache__", "*.pyc"))
            pr = subprocess.run(["patch", "-p1", "-s", "-d", tree, "-i", os.path.join(d, "patch.diff")], capture_output=True, text=True)
            if pr.returncode != 0:
                print(f"{n:8s} {prop} PATCH DOES NOT APPLY to the current tree: {(pr.stdout + pr.stderr).strip()[:160]}", flush=True)
                ok = False
                continue
            env["VERIF_REPO"] = tree
        else:
            assert subprocess.run(["git", "-C", "/repo", "status", "--porcelain"], capture_output=True, text=True).stdout.strip() == "", "/repo not clean"
            subprocess.run(["git", "-C", "/repo", "apply", os.path.join(d, "patch.diff")], check=True)
        p = subprocess.run([os.path.join(V, "check"), prop, "--tier", "quick"], env=env, capture_output=True, text=True)
    finally:
        if not scratch_mode:
            subprocess.run(["git", "-C", "/repo", "checkout", "--", "."], check=True)
        shutil.rmtree(tmp, ignore_errors=True)
    sigs = [l.strip() for l in p.stdout.splitlines() if l.strip().startswith("signature=")]
    caught = p.returncode == 1 and "VIOLATION property=" in p.stdout
    json.dump({"check": f"./check {prop} --tier quick", "mode": "scratch copy (VERIF_REPO)" if scratch_mode else "applied to /repo and undone", "exit": p.returncode, "caught": caught, "signatures": [s[:300] for s in sigs[:3]],
               **({} if caught else {"output_tail": (p.stdout + p.stderr)[-3000:]})},
              open(os.path.join(d, "result.json"), "w"), indent=1)
    print(f"{n:8s} {prop} exit={p.returncode} caught={caught} {sigs[:1]}"[:260], flush=True)
    ok = ok and caught
sys.exit(0 if ok else 1)
