#!/usr/bin/env python3
"""Compare a junit xml of the repository's test-suite with /root/.vp/BASELINE.json stable_pass."""
import json, sys
import xml.etree.ElementTree as ET
base = set(json.load(open('/root/.vp/BASELINE.json'))['stable_pass'])
t = ET.parse(sys.argv[1])
passed = set(); failed = set()
for tc in t.iter('testcase'):
    tid = f"{tc.get('classname')}::{tc.get('name')}"
    bad = any(ch.tag in ('failure', 'error', 'skipped') for ch in tc)
    (failed if bad else passed).add(tid)
missing = sorted(base - passed)
print(f"baseline stable_pass={len(base)} passed_now={len(passed)} failed_now={len(failed)} baseline_tests_not_passing={len(missing)}")
for m in missing[:40]:
    print("  NOT PASSING:", m)
sys.exit(1 if missing else 0)
