"""C10 — API results depend only on the arguments, not on earlier or concurrent calls.

Reference model = the same call without the history: the process running this module never calls the
TatSu API itself ("zygote": it has only imported tatsu); every history and every single reference call is
executed in a forked child.  (a) histories: sequences of API calls with faults (failing semantic actions,
foreign exceptions, interruption at the N-th line); (b) schedules: caller threads on shared models under a
baton scheduler with pre-emption at line/opcode events of tatsu frames.
"""
from __future__ import annotations

import copy
import gc
import hashlib
import json
import os
import pickle
import random
import re
import select
import signal
import sys
import threading
import time
import traceback

from .kernel import Decider, HarnessError, Sim, SimAbort, Violation, derive

PROP = "C10"
HASHSEED_IN_SPEC = True

# ------------------------------------------------------------------------------- workload pool
GRAMMARS = {
    "ref": "start = num word $ ;\nnum = /\\d+/ ;\nword = /[a-z]+/ ;\n",
    "choice": "start = x $ ;\nx = 'a' | 'b' | num ;\nnum = /\\d+/ ;\n",
    "typed": "start = num $ ;\nnum::Num = v:/\\d+/ ;\n",
    "typed_b": "start = num $ ;\nnum::Num::Base = v:/\\d+/ ;\n",          # same type name 'Num', other bases
    "typed_c": "start::Pair = a:num b:word $ ;\nnum::Num = /\\d+/ ;\nword::Word = /[a-z]+/ ;\n",
    "params": "start = num $ ;\nnum(Number) = /\\d+/ ;\n",
    "kw": "@@keyword :: if then\nstart = name $ ;\n@name\nname = /[a-z]+/ ;\n",
    "icase": "@@ignorecase :: True\n@@keyword :: select\nstart = name $ ;\n@name\nname = /[a-zA-Z]+/ ;\n",
    "ws": "@@whitespace :: /[\\t ]+/\nstart = word word $ ;\nword = /[a-z]+/ ;\n",
    "const": "start = 'a' `42` $ ;\n",
    "named": "@@grammar :: Named\nstart = x:num $ ;\nnum = /\\d+/ ;\n",
    "over": "start = '(' @:num ')' $ ;\nnum = /\\d+/ ;\n",
    "lrec": "start = e $ ;\ne = e '+' n | n ;\nn = /\\d+/ ;\n",
    "cut": "start = a | b ;\na = 'x' ~ 'y' ;\nb = 'x' 'z' ;\n",
    "two": "start = second $ ;\nfirst = /\\d+/ ;\nsecond = /[a-z]+/ ;\n",
    "bad": "start = undefined_rule $ ;\n",                                # compile error
    "bad2": "start = first second third $ ;\n",                             # compile error that names several things
    "typed_d": "start = word $ ;\nword::Num = /[a-z]+/ ;\n",
    # rule names that differ only in leading / trailing underscores (a lookup that tries several spellings of a name)
    "us": "start = 'x' $ ;\n_start_ = 'y' $ ;\n_start = 'z' $ ;\nstart_ = 'w' $ ;\n",
    # type names that are also names of the library's own (SynthNode, Node, BaseNode, Any, Model): wherever synthesized
    # classes are kept, they must not displace what the library itself looks up by those names
    "typed_s": "start::SynthNode = v:/\\d+/ $ ;\n",
    "typed_n": "start = a b $ ;\na::Node = /\\d+/ ;\nb::BaseNode::Any = /[a-z]+/ ;\n",
    # one type name under two base chains in ONE grammar: which bases the class gets must not depend on which rule ran first
    "typed_e": "start = a | b ;\na::X::P = 'a' ;\nb::X::Q = 'b' ;\n",                # type name 'Num' again, on another rule
    # values that are equal but of different types (1, 1.0, True): anything keyed by value may confuse them
    "nums": "start = value $ ;\nvalue = real | integer | flag ;\ninteger::int = /\\d+/ ;\nreal::float = /\\d+\\.\\d+/ ;\nflag::bool = 'yes' ;\n",
    "nums_b": "start = value $ ;\nvalue = integer | flag ;\ninteger::int = /\\d+/ ;\nflag::bool = 'yes' | 'on' ;\n",
    # grammars that differ only in white space that matters (inside a token, inside a pattern)
    # constants evaluated in a rule with named elements, and constants that mention such names or builtins
    "cn_a": "start = v:/\\d+/ `ok` $ ;\n",
    "cn_b": "start = 'x' `v` $ ;\n",
    "cn_c": "start = 'x' `{len('abc')}` $ ;\n",
    "cn_d": "start = len:/\\d+/ max:/[a-z]+/ `1` $ ;\n",
    "tok_a": "start = 'end if' $ ;\n",
    "tok_b": "start = 'end  if' $ ;\n",
    "pat_a": "start = /\\d+ \\d+/ $ ;\n",
    "pat_b": "start = /\\d+  \\d+/ $ ;\n",
    "kw_b": "@@keyword :: then else\nstart = name $ ;\n@name\nname = /[a-z]+/ ;\n",  # same rules as 'kw', other keywords
    # the same rule text as in 'choice' / 'lrec', calling a rule that is defined differently (whatever is derived from a rule AND
    # its callees - first sets, expected-token lists, inlined includes - must not be remembered per rule)
    "choice_b": "start = x $ ;\nx = 'a' | 'b' | num ;\nnum = /0x[0-9a-f]+/ | /\\d+/ ;\n",
    "lrec_b": "start = e $ ;\ne = e '+' n | n ;\nn = /[a-z]+/ | '(' e ')' ;\n",
    # typed rules whose AST is a token literal (the same str object in every parse of one compiled model)
    "typed_tok": "start = kw num $ ;\nkw::Kw = 'begin' | 'end' ;\nnum::Num = /\\d+/ ;\n",
    # names may be upper case: whether 'IF' is reserved depends on the case rules of the call (and of nothing else)
    "kw_c": "@@keyword :: if then\nstart = name $ ;\n@name\nname = /[a-zA-Z]+/ ;\n",
    # comments: what is skipped between tokens is decided by directives / per-call settings (patterns compiled and kept somewhere)
    "cmt_a": "@@comments :: /\\(\\*((?:.|\\n)*?)\\*\\)/\n@@eol_comments :: /#([^\\n]*?)$/\nstart = num num $ ;\nnum = /\\d+/ ;\n",
    "cmt_b": "@@comments :: /\\{[^}]*\\}/\n@@eol_comments :: /;[^\\n]*/\nstart = num num $ ;\nnum = /\\d+/ ;\n",
    "cmt_c": "start = num num $ ;\nnum = /\\d+/ ;\n",
    # repetition, option, separators, named lists (per-position state: closures and their memo entries)
    "clo": "start = {item}* $ ;\nitem = /\\d+/ | word ;\nword = /[a-z]+/ ;\n",
    "clo_b": "start = {item}* $ ;\nitem = /\\d+/ ;\n",
    "opt": "start = ['-'] num ['!'] $ ;\nnum = /\\d+/ ;\n",
    # a choice between rule calls inside a named / repeated / optional element: first sets of nested nodes are worked out
    # more than once (grammar analysis, error messages, code generation) and must come out the same every time
    "clo_n": "start = { x+:(num | word) }+ $ ;\nnum = /\\d+/ ;\nword = /[a-z]+/ ;\n",
    "opt_n": "start = 'let' ~ v:(num | word) [ '=' (num | word) ] $ | '(' @:(word | num) ')' $ ;\nnum = /\\d+/ ;\nword = /[a-z]+/ ;\n",
    "join": "start = ','.{num}+ $ ;\nnum = /\\d+/ ;\n",
    "nlist": "start = xs+:num {',' xs+:num}* $ ;\nnum = /\\d+/ ;\n",
    # rule decorators, inheritance, keyword parameters
    "inh": "start = sub $ ;\nbase = 'x' ;\nsub < base = 'y' ;\n",
    "nomemo": "start = a $ ;\n@nomemo\na = 'x' | 'y' ;\n",
    "kwparams": "start = num $ ;\nnum(Number, base=10) = /\\d+/ ;\n",
    "kwparams_b": "start = num $ ;\nnum(Number, base=16) = /\\d+/ ;\n",
    # a rule entered again at the same position after backtracking (what memoisation is for): how often its action runs
    "bt": "start = num '+' num $ | num '-' num $ | num $ ;\nnum = /\\d+/ ;\n",
    "bt_b": "start = num '+' num $ | num '-' num $ | num $ ;\nnum = /\\d+/ | /[a-z]+/ ;\n",
    # a wide choice (a command or keyword list): more alternatives than any cap on list lengths, message widths, columns
    "wide": "start = cmd $ ;\ncmd = 'add' | 'bind' | 'call' | 'copy' | 'drop' | 'edit' | 'find' | 'grep' | 'help' | 'init' | 'join' | 'kill' | 'list' | 'move' | 'next' | 'open' | 'pull' | 'push' | 'quit' | 'redo' | 'save' | 'show' | 'sync' | 'tag' | 'undo' | 'view' ;\n",
    "wide_b": "start = cmd $ ;\ncmd = 'add' ~ /\\d+/ | 'bind' | 'call' | 'copy' | 'drop' | 'edit' | 'find' | 'grep' | 'help' | 'init' | 'join' | 'kill' | 'list' | 'move' | 'next' | 'open' | 'pull' | 'push' | 'quit' | 'redo' | 'save' | 'show' | 'sync' | 'tag' | 'undo' | 'view' | name ;\nname = /[A-Z]+/ ;\n",
    # tokens that contain characters which are name characters only under some settings ('_', '-', '$', '.'): whether
    # the name guard applies to such a token is a matter of the settings of THIS call
    "nc_a": "@@namechars :: '_'\nstart = 'end_if' /\\w+/ $ | /\\w+/ $ ;\n",
    "nc_b": "start = 'end_if' /\\w+/ $ | /\\w+/ $ ;\n",
    "nc_c": "@@namechars :: '-$'\nstart = 'a-b' /[\\w$-]+/ $ | 'x$' /[\\w$-]+/ $ | /[\\w$-]+/ $ ;\n",
    "nc_d": "start = 'a-b' /[\\w$-]+/ $ | 'x$' /[\\w$-]+/ $ | /[\\w$-]+/ $ ;\n",
    # line ends as tokens
    "eol": "@@whitespace :: /[ \\t]+/\nstart = w '\\n' w $ ;\nw = /[a-z]+/ ;\n",
    # many distinct patterns: fills (and overflows) whatever process-wide cache of compiled patterns there is
    "manypat": "start = " + " | ".join(f"p{i}" for i in range(72)) + " ;\n" + "".join(f"p{i} = /x{i}y/ ;\n" for i in range(72)),
}
INPUTS = {
    "ref": ["12 ab", "12", "ab", "7 x", ""],
    "choice": ["  a", "\n b", "a", "b", "c", "42", "a b", "A", " a"],
    "typed": ["1", "22", "a", ""],
    "typed_b": ["1", "x"],
    "typed_c": ["1 a", "1", "a 1"],
    "params": ["1", "a"],
    "kw": ["x", "if", "then", "IF", "iff"],
    "icase": ["x", "select", "SELECT", "Select", "1"],
    "ws": ["ab cd", "ab\ncd", "ab\tcd", "ab"],
    "const": ["a", "b", "a a", "A"],
    "named": ["1", "a"],
    "over": ["(1)", "(a)", "( 2 )"],
    "lrec": ["1", "1+2", "1+2+3", "+"],
    "cut": ["x y", "x z", "x", "xy", "X Y", "x\ty"],
    "two": ["ab", "12"],
    "bad": ["x"],
    "bad2": ["x"],
    "typed_d": ["ab", "1"],
    "us": ["x", "y", "z", "w"],
    "typed_s": ["1", "a"],
    "typed_n": ["1 a", "1"],
    "typed_e": ["a", "b", "c"],
    "nums": ["1", "1.0", "yes", "0", "0.0", "2", "2.5", "x"],
    "nums_b": ["1", "yes", "on", "0", "1.0"],
    "cn_a": ["7", "x"],
    "cn_b": ["x", "y"],
    "cn_c": ["x"],
    "cn_d": ["7 ab", "7"],
    "tok_a": ["end if", "end  if", "END IF", " end if"],
    "tok_b": ["end if", "end  if", "END  IF"],
    "pat_a": ["12 34", "12  34"],
    "pat_b": ["12 34", "12  34"],
    "kw_b": ["x", "if", "then", "else"],
    "kw_c": ["x", "if", "IF", "If", "THEN", "iff"],
    "choice_b": ["a", "0x1f", "42", "c", " b"],
    "lrec_b": ["a", "a+b", "(a+b)+c", "1"],
    "typed_tok": ["begin 42", "\n\n   begin 7", "end 1", "  end 1", "begin"],
    "manypat": ["zzz", "x5y", "x71y"],
    "cmt_a": ["1 (* c *) 2", "1 {c} 2", "1 # x\n2", "1 ; x\n2", "1 2", "(* a *) 1 2", "1 (* 2"],
    "cmt_b": ["1 (* c *) 2", "1 {c} 2", "1 ; x\n2", "1 2", "{a}{b} 1 2"],
    "cmt_c": ["1 (* c *) 2", "1 {c} 2", "1 2", "1 # x\n2"],
    "clo": ["1 a 2", "", "1", "a", "1 !"],
    "clo_b": ["1 2", "", "1", "a"],
    "opt": ["-1!", "1", "-", "-1", "1!"],
    "clo_n": ["?", "1 a", "1", "", "a ?"],
    "opt_n": ["let ?", "let a = 1", "(a)", "(?", "let a = ?", "?"],
    "join": ["1,2,3", "1,", "1", ""],
    "nlist": ["1,2,3", "1", "1,2"],
    "inh": ["x y", "y", "x"],
    "nomemo": ["x", "y", "z"],
    "kwparams": ["1", "a"],
    "kwparams_b": ["1", "a"],
    "eol": ["a\nb", "a b", "a \n b", "a\n\nb"],
    "bt": ["1-2", "1+2", "1", "1*2", "12-3"],
    "nc_a": ["end_ifx", "end_if x", "end_if", "end_if_x"],
    "nc_b": ["end_ifx", "end_if x", "end_if", "end_if_x"],
    "nc_c": ["a-bc", "a-b c", "x$y", "a-b-c", "x$ y"],
    "nc_d": ["a-bc", "a-b c", "x$y", "a-b-c", "x$ y"],
    "wide": ["add", "launch", "undo", "view", "", "vie"],
    "wide_b": ["add 1", "add", "launch", "VIEW", "view", "?"],
    "bt_b": ["1-2", "a-b", "1", "a+1"],
}
# texts of the same *shape* (same length, same line lengths) that differ in content or in how they end: whatever is kept
# per text (line index, token cache, memo tables) and looked up by length / shape / position must not be shared by them
for _g, _ts in INPUTS.items():
    for _t in list(_ts[:2]):
        if len(_t) >= 2 and not _t.endswith("\n"):
            for _v in (_t[:-1] + "\n", _t + "\n", _t[:-1] + " "):
                if _v not in _ts:
                    _ts.append(_v)
FAMILIES = [["typed", "typed_b", "typed_c", "params", "typed_d", "typed_tok", "typed_s", "typed_n", "typed_e"], ["kw", "icase", "kw_b", "kw_c"], ["ref", "two", "choice", "ws", "choice_b"], ["lrec", "cut", "over", "named", "const", "lrec_b"],
            ["nums", "nums_b"], ["us", "two"], ["cmt_a", "cmt_b", "cmt_c"], ["clo", "clo_b", "opt", "join", "nlist", "clo_n", "opt_n"], ["inh", "nomemo", "kwparams", "kwparams_b", "params"], ["eol", "ws"], ["nc_a", "nc_b", "nc_c", "nc_d", "kw_c"], ["wide", "wide_b", "kw"], ["bt", "bt_b", "lrec", "choice"], ["tok_a", "tok_b", "pat_a", "pat_b"], ["cn_a", "cn_b", "cn_c", "cn_d", "const"]]
FAMILY_RULES = {"us": ["start", "_start_", "_start", "start_", "__start__"], "bt": ["start", "num", "e", "n", "x"], "cmt_a": ["start", "num"], "clo": ["start", "item", "word", "num"], "inh": ["start", "base", "sub", "a", "num"], "eol": ["start", "w", "word"], "nums": ["start", "value", "integer", "real", "flag"], "tok_a": ["start"], "typed": ["start", "num", "word", "nosuch"], "kw": ["start", "name", "stmt"], "ref": ["start", "num", "word", "first", "second", "x", "nosuch"],
                "lrec": ["start", "e", "n", "a", "b", "num"]}


def start_choices(g):
    """Start-rule names worth trying on grammar g: its own rules and those of the related grammars (a name that one of
    them lacks and another defines is how a lookup cached for one generated parser can show in another)."""
    for fam in FAMILIES:
        if g in fam:
            return [None, None] + FAMILY_RULES.get(fam[0], ["start"])
    return [None]


STARTS = {"two": [None, "first", "second", "nosuch"], "ref": [None, "num", "word"], "choice": [None, "x", "num"]}
SETTINGS_POOL = [
    {}, {}, {}, {"ignorecase": True}, {"nameguard": False}, {"nameguard": True}, {"parseinfo": True},
    {"whitespace": ""}, {"whitespace": "[ ]+"}, {"left_recursion": False}, {"memoization": False}, {"trace": False},
    {"ignorecase": True, "parseinfo": True}, {"namechars": "_"}, {"trace": True, "colorize": False}, {"memoization": False, "parseinfo": True},
    {"source": "input.txt"}, {"source": "input.txt", "ignorecase": True}, {"source": "input.txt", "whitespace": ""}, {"source": "other.txt"},
    {"comments": "\\{[^}]*\\}"}, {"eol_comments": ";[^\\n]*"}, {"comments": "\\(\\*((?:.|\\n)*?)\\*\\)", "eol_comments": "#([^\\n]*?)$"}, {"nameguard": False, "namechars": "-"},
]
PARSER_INIT = [{"memoization": False}, {"memoization": False}, {"left_recursion": False}, {"parseinfo": True}, {"ignorecase": True}, {"nameguard": False}, {"whitespace": ""}, {"trace": False}]
CALL_SETTINGS = [{"memoization": True}, {"ignorecase": False}, {"parseinfo": False}, {"comments": "\\{[^}]*\\}"}, {"eol_comments": ";[^\\n]*"}, {"memoization": False}, {"left_recursion": False}, {"parseinfo": True}, {"ignorecase": True}, {"ignorecase": True}, {"nameguard": False}, {"whitespace": ""}, {"source": "input.txt"}, {"keywords": ["x", "iff"]},
                 {"source": "input.txt", "ignorecase": True}, {"source": "input.txt", "whitespace": ""}, {"source": "input.txt", "nameguard": False}]
NAMES = [None, None, "A", "B", "Test"]
SEM_HANDLES = {"S1": "tag", "S2": "eq", "S3": "num", "S4": "fb"}      # a shared semantics object is always of the same kind
CFG_HANDLES = {"K1": {"parseinfo": True}, "K2": {"nameguard": False, "ignorecase": True}}  # and a shared config has fixed contents
SEMS = ["none", "none", "id", "tag", "default", "num", "eq", "fa", "fb", "fc", "ord", "ord"]


class SemFault(Exception):
    pass


class _Counting:
    def __init__(self, fault=None):
        self.fault = fault
        self.calls = 0

    def _hit(self):
        self.calls += 1
        f = self.fault
        if f and self.calls == f["nth"]:
            if f["kind"] == "failsem":
                from tatsu.exceptions import FailedSemantics

                raise FailedSemantics(f"injected failure at call {self.calls}")
            excs = {"KeyError": KeyError, "ValueError": ValueError, "TypeError": TypeError, "SemFault": SemFault}
            raise excs[f["exc"]](f"injected {f['exc']} at call {self.calls}")


def _where(kwargs):
    """What an action that looks at its `parseinfo` keyword sees: position, end, line of THIS invocation."""
    pi = kwargs.get("parseinfo") if isinstance(kwargs, dict) else kwargs
    if pi is None:
        return None
    return [getattr(pi, "pos", None), getattr(pi, "endpos", None), getattr(pi, "line", None)]


_OP_EPOCH = threading.local()  # exec_op counts the calls made by this thread


class OrdSem(_Counting):
    """Stateful semantics: every action result carries the ordinal of that invocation within the current API call (a
    node-id allocator, a symbol-table builder).  How often and in which order actions run is then part of the result -
    and, like the result, fixed by the arguments of the call: a rule tried again at the same position is served from the
    memo of THIS parse or runs again, according to the settings of THIS call."""

    def __init__(self, fault=None):
        super().__init__(fault)
        self._tl = threading.local()

    def _default(self, ast, *args, **kwargs):
        self._hit()
        tl = self._tl
        ep = getattr(_OP_EPOCH, "n", 0)
        if getattr(tl, "epoch", None) != ep:
            tl.epoch = ep
            tl.n = 0
        tl.n += 1
        return [f"#{tl.n}", list(args), ast]


class IdSem(_Counting):
    def _default(self, ast, *args, **kwargs):
        self._hit()
        return ast


class TagSem(_Counting):
    def _default(self, ast, *args, **kwargs):
        self._hit()
        w = _where(kwargs)
        return ["T", list(args), ast] if w is None else ["T", list(args), ast, w]


class DefaultOnlySem(_Counting):
    def _default(self, ast, *args, **kwargs):
        self._hit()
        return ast


class NumSem(_Counting):
    def num(self, ast, *args, **kwargs):
        self._hit()
        return ["NUM", ast if isinstance(ast, str) else repr(type(ast).__name__)]

    def start(self, ast, *args, **kwargs):
        self._hit()
        return ["START", ast]


TD_MODULES = {"calc": ["ModelBase", "Num"], "text": ["ModelBase", "Word"], "word": ["Word"], "pair": ["Pair", "Num"],
              # different module OBJECTS with one and the same __name__ (two generated `model.py` files loaded by path, a module
              # reloaded after it was regenerated): the classes of each hang under a base class of their own version
              "gen@1": ["ModelBase", "Num"], "gen@2": ["ModelBase", "Num", "Word", "Pair"], "gen@3": ["Word", "Kw"]}
BH_KINDS = {"B1": "config", "B2": "constructors", "B3": "config"}  # objects the caller keeps and passes again


def _td_module(name):
    """A module of node classes as written by to_python_model(): every such module defines `ModelBase`."""
    import types

    from tatsu.objectmodel import Node

    key = "tdmod:" + name
    if key not in _BUILDER_NS:
        mod = types.ModuleType(name.split("@")[0] + "_model")
        base = Node
        if "@" in name:
            base = type(f"V{name.split('@')[1]}Base", (Node,), {"__module__": "elsewhere"})
        for cn in TD_MODULES[name]:
            setattr(mod, cn, type(cn, (base,), {"__module__": mod.__name__}))
        _BUILDER_NS[key] = mod
    return _BUILDER_NS[key]


def canon_builder_obj(obj):
    def nm(x):
        return f"{getattr(x, '__module__', '?')}.{getattr(x, '__qualname__', getattr(x, '__name__', repr(type(x))))}"

    if isinstance(obj, list):
        return {"list": [nm(x) for x in obj]}
    return {"basetype": nm(obj.basetype), "synthok": obj.synthok, "typedefs": [nm(t) for t in obj.typedefs], "constructors": [nm(c) for c in obj.constructors]}


def builder_kwargs(spec_b, H=None):
    """Caller-provided model-builder options (compile/parse keyword arguments) from their JSON description."""
    if not spec_b:
        return {}
    from tatsu.objectmodel import Node

    ns = _BUILDER_NS
    if not ns:
        class MyBase(Node):
            pass

        class OtherBase(Node):
            pass

        class Num(Node):
            pass

        class Word(Node):
            pass

        for c in (MyBase, OtherBase, Num, Word):
            c.__module__ = __name__
            ns[c.__name__] = c

        def mk(typename):
            # a plain function as constructor, one that looks at where its node was found
            def make(ast=None, parseinfo=None, **kwargs):
                return {typename: ast if isinstance(ast, (str, int, float, type(None))) else repr(type(ast).__name__), "where": _where(parseinfo)}

            make.__name__ = make.__qualname__ = typename
            return make

        for tn in ("Num", "Word", "Kw", "Pair"):
            ns["fn" + tn] = mk(tn)
    kw = {}
    if "basetype" in spec_b:
        kw["basetype"] = ns[spec_b["basetype"]]
    if "constructors" in spec_b:
        kw["constructors"] = [ns[n] for n in spec_b["constructors"]]
    if "typedefs" in spec_b:
        kw["typedefs"] = [{n: ns[n] for n in spec_b["typedefs"]}]
    if "synthok" in spec_b:
        kw["synthok"] = spec_b["synthok"]
    if "builderconfig" in spec_b:
        from tatsu.objectmodel.builder import BuilderConfig

        kw["builderconfig"] = BuilderConfig(basetype=ns[spec_b["builderconfig"]])
    if "tdmod" in spec_b:
        kw["typedefs"] = [_td_module(spec_b["tdmod"])]
    if "bh" in spec_b:
        # one BuilderConfig object / one constructors list that the application creates once and passes to many calls
        from tatsu.objectmodel.builder import BuilderConfig

        key = "bld:" + spec_b["bh"]
        store = H if H is not None else {}
        if key not in store:
            store[key] = ("bld", BuilderConfig() if BH_KINDS[spec_b["bh"]] == "config" else [])
        obj = store[key][1]
        kw["builderconfig" if BH_KINDS[spec_b["bh"]] == "config" else "constructors"] = obj
    return kw


_BUILDER_NS: dict = {}
_VCTR = [0]
BUILDER_POOL = [{"basetype": "MyBase"}, {"basetype": "OtherBase"}, {"constructors": ["Num"]}, {"constructors": ["Num", "Word"]},
                {"typedefs": ["Num", "Word"]}, {"synthok": False}, {"builderconfig": "MyBase"}, {"basetype": "MyBase", "synthok": False},
                {"constructors": ["fnNum", "fnKw", "fnWord"]}, {"constructors": ["fnNum", "fnKw", "fnWord"]}, {"tdmod": "calc"}, {"tdmod": "word"}, {"bh": "B1"}, {"bh": "B1", "tdmod": "calc"}, {"bh": "B2", "tdmod": "text"},
                {"tdmod": "gen@1"}, {"tdmod": "gen@2"}, {"tdmod": "gen@3"}, {"tdmod": "gen@2"}]
# the options of a history about ONE application-wide builder configuration (see gen_builder_history)
BH_POOL = [{"bh": "B1"}, {"bh": "B1", "tdmod": "calc"}, {"bh": "B1", "tdmod": "text"}, {"bh": "B1", "tdmod": "word"}, {"bh": "B1", "tdmod": "pair"},
           {"bh": "B2"}, {"bh": "B2", "tdmod": "calc"}, {"bh": "B2", "tdmod": "word"}, {"bh": "B2", "tdmod": "text"}, {"tdmod": "calc"}, {"tdmod": "text"},
           {"tdmod": "gen@1"}, {"tdmod": "gen@2"}, {"tdmod": "gen@3"}, {"bh": "B1", "tdmod": "gen@1"}, {"bh": "B1", "tdmod": "gen@2"}]


class EqSem(_Counting):
    """Semantics objects that compare equal by value (as a frozen dataclass of options would) but are different objects:
    the one passed to a call is the one whose actions must run."""

    _serial = [0]

    def __init__(self, fault=None):
        super().__init__(fault)
        EqSem._serial[0] += 1
        self.tag = None  # set by make_sem

    def __eq__(self, other):
        return isinstance(other, EqSem)

    def __hash__(self):
        return 7

    def _default(self, ast, *args, **kwargs):
        self._hit()
        return ["EQ", self.tag, ast]


def factory_sem(variant):
    """Semantics classes made by a factory: one module, one qualified name, different signatures (as after editing a class
    in a notebook cell, reloading a module, or regenerating a model module)."""
    if variant == "fa":
        class FSem(_Counting):
            def num(self, ast):
                self._hit()
                return ["FA-num", ast]

            def _default(self, ast):
                self._hit()
                return ast
    elif variant == "fb":
        class FSem(_Counting):
            def num(self, ast, kind=None, parseinfo=None):
                self._hit()
                return ["FB-num", ast, kind, None if parseinfo is None else [parseinfo.pos, parseinfo.endpos]]

            def _default(self, ast, *args, parseinfo=None, **kwargs):
                self._hit()
                return ["FB", list(args), ast] if parseinfo is None else ["FB", list(args), ast, _where(parseinfo)]
    else:
        class FSem(_Counting):
            def num(self, ast, kind):
                self._hit()
                return ["FC-num", ast, kind]

            def _default(self, ast, *args, **kwargs):
                self._hit()
                return ast
    FSem.__qualname__ = "FSem"
    FSem.__module__ = __name__
    return FSem


class ReenterSem(_Counting):
    """A semantic action that parses something else with the same model while a parse is going on (include files,
    nested languages): the inner parse must not disturb the outer one."""

    model = None
    inner_text = None
    depth = 0

    def _default(self, ast, *args, **kwargs):
        self._hit()
        if self.model is not None and self.depth == 0 and self.calls == 1:
            self.depth += 1
            try:
                try:
                    inner = canon(self.model.parse(self.inner_text))
                except Exception as e:  # noqa: BLE001
                    inner = type(e).__name__
            finally:
                self.depth -= 1
            return ["RE", inner, ast]
        return ast


def make_sem(kind, fault, tag=None):
    if kind == "none":
        return None
    if kind == "reenter":
        return ReenterSem(fault)
    if kind in ("fa", "fb", "fc"):
        return factory_sem(kind)(fault)
    sem = {"ord": OrdSem, "id": IdSem, "tag": TagSem, "default": DefaultOnlySem, "num": NumSem, "eq": EqSem}[kind](fault)
    if kind == "eq":
        sem.tag = tag
    return sem


# ------------------------------------------------------------------------------- canonical forms
_ADDR = re.compile(r"0x[0-9a-fA-F]+")
_IDEQ = re.compile(r"id\([a-z]+\)=\d+")


def mask(s: str) -> str:
    return _IDEQ.sub("id=#", _ADDR.sub("0x#", s))


def canon(v, depth=0):
    if depth > 40:
        return "<deep>"
    if v is None or type(v) is str:
        return v
    if type(v) in (bool, int, float):
        return {type(v).__name__: repr(v)}  # 1, 1.0 and True are equal in Python and must not be here
    if isinstance(v, (bool, int, float, str)):
        return {"scalar": type(v).__name__, "repr": repr(v)}
    tname = type(v).__name__
    if isinstance(v, (list, tuple)):
        items = [canon(x, depth + 1) for x in v]
        return items if type(v) is list else {tname: items}
    if isinstance(v, dict):
        items = {}
        for k, x in v.items():
            if k == "parseinfo" and x is not None:
                items["parseinfo"] = canon_parseinfo(x)
            else:
                items[str(k)] = canon(x, depth + 1)
        return {"map": tname, "items": dict(sorted(items.items()))}
    if isinstance(v, (set, frozenset)):
        return {tname: sorted((canon(x, depth + 1) for x in v), key=lambda z: json.dumps(z, sort_keys=True, default=repr))}
    try:
        from tatsu.objectmodel.basenode import BaseNode
    except Exception:  # noqa: BLE001
        BaseNode = ()
    if BaseNode and isinstance(v, BaseNode):
        mro = [c.__name__ for c in type(v).__mro__]
        cut = mro.index("BaseNode") if "BaseNode" in mro else len(mro)
        attrs = {}
        for name, val in sorted(vars(v).items()):
            if name.startswith("_") or callable(val):
                continue
            if name == "parseinfo":
                attrs[name] = canon_parseinfo(val)
            elif name == "ctx":
                continue
            else:
                attrs[name] = canon(val, depth + 1)
        return {"node": tname, "mro": mro[:cut], "attrs": attrs}
    return {"obj": tname, "repr": mask(repr(v))[:300]}


def canon_parseinfo(pi):
    if pi is None:
        return None
    try:
        return [pi.rule, pi.pos, pi.endpos, pi.line, pi.endline]
    except Exception:  # noqa: BLE001
        return mask(repr(pi))[:200]


def canon_exc(e: BaseException):
    out = {"exc": type(e).__name__}
    for a in ("pos", "line", "col"):
        if hasattr(e, a):
            try:
                val = getattr(e, a)
                out[a] = val if isinstance(val, (int, str, type(None))) else mask(repr(val))[:80]
            except Exception:  # noqa: BLE001
                pass
    msg = mask(str(e))
    out["msg"] = "\n".join(msg.splitlines()[:12])[:1500]
    # where it was raised (innermost tatsu frames): reported, never compared
    try:
        tb = traceback.extract_tb(e.__traceback__)
        fr = [f"{os.path.basename(f.filename)}:{f.name}:{f.lineno}" for f in tb if "tatsu" in f.filename]
        out["_where"] = fr[-4:]
    except Exception:  # noqa: BLE001
        pass
    return out


def canon_config(cfg) -> dict:
    d = {}
    for k, v in sorted(cfg.asdict().items()):
        if k == "semantics":
            d[k] = sem_dump(v)
        elif k == "heart":
            d[k] = type(v).__name__
        elif k == "tokenizercls":
            d[k] = getattr(v, "__name__", repr(v))
        else:
            d[k] = canon(v)
    return d


def sem_dump(sem):
    if sem is None:
        return None
    out = {"type": type(sem).__name__}
    cfg = getattr(sem, "config", None)
    if cfg is not None and hasattr(cfg, "asdict"):
        try:
            bc = cfg.asdict()
            out["builder"] = {"basetype": getattr(bc.get("basetype"), "__name__", repr(bc.get("basetype"))),
                              "synthok": bc.get("synthok"),
                              "typedefs": sorted(getattr(t, "__name__", repr(t)) for t in bc.get("typedefs") or []),
                              "constructors": sorted(getattr(t, "__name__", repr(t)) for t in bc.get("constructors") or [])}
        except Exception:  # noqa: BLE001
            pass
    return out


def dump_model(m) -> dict:
    """Everything a caller can observe about a compiled grammar without parsing (lazy caches excluded)."""
    out = {"class": type(m).__name__, "name": getattr(m, "name", None)}
    try:
        out["pretty"] = mask(m.pretty() if hasattr(m, "pretty") else m._pretty())
    except Exception as e:  # noqa: BLE001
        out["pretty"] = "EXC " + type(e).__name__
    rules = []
    for r in getattr(m, "rules", ()):
        rules.append([r.name, bool(r.is_name), bool(r.is_tokn), bool(r.no_memo), bool(r.is_memo), bool(r.is_lrec),
                      mask(repr(r.params)), mask(repr(r.kwparams))])
    out["rules"] = rules
    out["directives"] = canon(dict(getattr(m, "directives", {}) or {}))
    out["keywords"] = canon(list(getattr(m, "keywords", ()) or ()))
    out["config"] = canon_config(m.config)
    return out


def dump_parser(p) -> dict:
    cfg = getattr(p, "_config", None) or getattr(p, "config", None)
    return {"class": type(p).__name__, "config": canon_config(cfg) if cfg is not None else None}


def digest_of(x) -> str:
    return hashlib.sha256(json.dumps(x, sort_keys=True, default=repr).encode()).hexdigest()[:20]


# ------------------------------------------------------------------------------- executing one op
_FINALLY_LINES: dict = {}


def finally_lines(filename):
    """Line numbers of cleanup code in a source file: bodies of `finally:` clauses and the header lines of `with` statements."""
    got = _FINALLY_LINES.get(filename)
    if got is None:
        import ast

        got = set()
        try:
            with open(filename, encoding="utf-8") as f:
                tree = ast.parse(f.read())
            for node in ast.walk(tree):
                if isinstance(node, (ast.Try, getattr(ast, "TryStar", ast.Try))) and node.finalbody:
                    got.update(range(node.finalbody[0].lineno, (node.finalbody[-1].end_lineno or node.finalbody[-1].lineno) + 1))
                elif isinstance(node, (ast.With, ast.AsyncWith)):
                    # CPython attributes the call of __exit__ on the way out of the block to the line of the `with`
                    # statement: a line event there may be the cleanup itself (bpo-29988)
                    got.update(range(node.lineno, node.body[0].lineno))
        except Exception:  # noqa: BLE001
            pass
        _FINALLY_LINES[filename] = got
    return got


def in_cleanup(frame, root):
    """Is any tatsu frame on the stack executing the body of a `finally:` clause (or an __exit__)?"""
    f = frame
    while f is not None:
        fn = f.f_code.co_filename
        if fn.startswith(root):
            if f.f_lineno in finally_lines(fn) or f.f_code.co_name in ("__exit__", "__aexit__"):
                return True
        f = f.f_back
    return False


class Interrupt:
    """Raise `exc` at the N-th line event inside tatsu frames (a call abandoned at an arbitrary instant).

    Not inside cleanup code: an interrupt that lands while a `finally:` body is running can leave anything half undone in
    any program; no library can promise otherwise, so the simulator delivers it at the first line after the cleanup."""

    def __init__(self, nth, exc, root):
        self.left = nth
        self.exc = exc
        self.root = root
        self.fired = False

    def glob(self, frame, event, arg):
        if event == "call" and frame.f_code.co_filename.startswith(self.root):
            return self.local
        return None

    def local(self, frame, event, arg):
        if event == "line" and not self.fired:
            self.left -= 1
            if self.left <= 0 and not in_cleanup(frame, self.root):
                self.fired = True
                raise {"KeyboardInterrupt": KeyboardInterrupt, "MemoryError": MemoryError, "RecursionError": RecursionError}[self.exc]("injected interruption")
        return self.local


def tatsu_root():
    import tatsu

    return os.path.dirname(os.path.abspath(tatsu.__file__)) + os.sep


def op_kwargs(op):
    kw = dict(op.get("settings") or {})
    if op.get("name") is not None:
        kw["name"] = op["name"]
    if op.get("start") is not None:
        kw["start"] = op["start"]
    return kw


def exec_op(op, H, probes=None):
    """Execute one API call.  Returns the canonical result (JSON-able)."""
    import tatsu

    kind = op["op"]
    fault = op.get("fault")
    _OP_EPOCH.n = getattr(_OP_EPOCH, "n", 0) + 1
    if op.get("semh"):
        # one semantics object owned by the caller and given to several calls (stateless kinds only)
        key = "sem:" + op["semh"]
        if key not in H:
            H[key] = ("sem", make_sem(SEM_HANDLES[op["semh"]], None, tag=op["semh"]))  # the kind belongs to the handle
        sem = H[key][1]
    else:
        sem = make_sem(op.get("sem", "none"), fault if fault and fault["kind"] in ("failsem", "foreign") else None,
                       tag=digest_of({k: v for k, v in op.items() if k not in ("out", "h")})[:6])
    intr = None
    if fault and fault["kind"] == "interrupt":
        intr = Interrupt(fault["nth"], fault["exc"], tatsu_root())
    cfg_obj = None
    cfg_before = None
    if op.get("cfg") is not None and kind in ("compile", "mparse", "pparse"):
        from tatsu.config import ParserConfig

        if op.get("cfgh"):
            # one ParserConfig object that the caller keeps and passes again
            key = "cfg:" + op["cfgh"]
            if key not in H:
                H[key] = ("cfg", ParserConfig(**op["cfg"]))
            cfg_obj = H[key][1]
            # the caller's object says what op["cfg"] says: where that differs from what the object was given last
            # time, the caller has assigned the fields IN PLACE since (cfg.ignorecase = True), not built a new object
            last = H.get("cfgl:" + op["cfgh"], ("cfg", None))[1]
            if last is not None and last != op["cfg"]:
                fresh = ParserConfig()
                for f in set(last) | set(op["cfg"]):
                    want = op["cfg"][f] if f in op["cfg"] else getattr(fresh, f)
                    if getattr(cfg_obj, f) != want:
                        setattr(cfg_obj, f, want)
                if probes is not None:
                    probes["caller_changed_its_config_object_in_place"] = probes.get("caller_changed_its_config_object_in_place", 0) + 1
            H["cfgl:" + op["cfgh"]] = ("cfg", dict(op["cfg"]))
        else:
            cfg_obj = ParserConfig(**op["cfg"])  # the caller's own object: built before any fault can strike
        cfg_before = canon_config(cfg_obj)
    bkw = builder_kwargs(op.get("builder"), H) if kind in ("compile", "parse") else {}
    bld_obj = bkw.get("builderconfig", bkw.get("constructors")) if (op.get("builder") or {}).get("bh") else None
    bld_before = canon_builder_obj(bld_obj) if bld_obj is not None else None

    raw = []  # what a parse returned: the caller keeps it, and it must still read the same after later calls

    def call():
        if kind == "compile":
            kw = op_kwargs(op)
            if op.get("asmodel"):
                kw["asmodel"] = True
            if sem is not None:
                kw["semantics"] = sem
            if cfg_obj is not None:
                kw["config"] = cfg_obj
            kw.update(bkw)
            m = tatsu.compile(GRAMMARS[op["g"]], **kw)
            H[op["out"]] = ("model", m)
            return {"model": dump_model(m)}
        if kind == "parse":
            kw = op_kwargs(op)
            if op.get("asmodel"):
                kw["asmodel"] = True
            if sem is not None:
                kw["semantics"] = sem
            kw.update(bkw)
            raw.append(tatsu.parse(GRAMMARS[op["g"]], op["text"], **kw))
            return {"value": canon(raw[0])}
        if kind in ("mparse", "pparse"):
            ent = H.get(op["h"])
            if ent is None:
                return {"skip": "no-handle"}
            kw = op_kwargs(op)
            if op.get("asmodel"):
                kw["asmodel"] = True
            if sem is not None:
                kw["semantics"] = sem
                if isinstance(sem, ReenterSem) and kind == "mparse":
                    sem.model = ent[1]
                    sem.inner_text = op.get("inner", op["text"])
            if cfg_obj is not None:
                kw["config"] = cfg_obj
            raw.append(ent[1].parse(op["text"], **kw))
            return {"value": canon(raw[0])}
        if kind == "src":
            src = tatsu.to_python_sourcecode(GRAMMARS[op["g"]], **op_kwargs(op))
            return {"src": hashlib.sha256(src.encode()).hexdigest()[:20], "len": len(src)}
        if kind == "pymodel":
            src = tatsu.to_python_model(GRAMMARS[op["g"]], **op_kwargs(op))
            return {"src": hashlib.sha256(src.encode()).hexdigest()[:20], "len": len(src)}
        if kind == "load":
            src = tatsu.to_python_sourcecode(GRAMMARS[op["g"]], **op_kwargs(op))
            ns = {"__name__": f"genparser_{op['out']}"}
            exec(compile_(src, f"<gen {op['g']}>"), ns)  # noqa: S102
            cls = next(v for k, v in ns.items() if isinstance(v, type) and k.endswith("Parser") and v.__module__ == ns["__name__"])
            H[op["out"]] = ("parser", cls(**(op.get("init") or {})))
            return {"parser": cls.__name__, "src": hashlib.sha256(src.encode()).hexdigest()[:20]}
        if kind == "drop":
            H.pop(op["h"], None)
            gc.collect()
            return {"dropped": True}
        if kind == "churn":
            # a long-running service: many short-lived parser objects, each used once (here: with a start rule the grammar
            # may not have) and thrown away.  Their addresses are free again for whatever is created next.
            ent = H.get(op["h"])
            if ent is None:
                return {"skip": "no-handle"}
            cls = type(ent[1])
            outcomes = {}
            for _ in range(op["count"]):
                p = cls()
                try:
                    r = digest_of(canon(p.parse(op["text"], **op_kwargs(op))))
                except Exception as e:  # noqa: BLE001
                    r = type(e).__name__
                outcomes[r] = outcomes.get(r, 0) + 1
                del p
            gc.collect()
            return {"churn": outcomes}
        raise HarnessError(f"unknown op {kind}")

    try:
        if intr is not None:
            sys.settrace(intr.glob)
        try:
            res = call()
        finally:
            if intr is not None:
                sys.settrace(None)
    except HarnessError:
        raise
    except SimAbort:
        raise
    except BaseException as e:  # noqa: BLE001  the call's outcome, compared with the reference
        res = {"raised": canon_exc(e)}
        if isinstance(e, (KeyboardInterrupt, MemoryError, RecursionError)) and intr is not None and intr.fired:
            res = {"interrupted": type(e).__name__}
            if probes is not None:
                probes["interrupt_delivered"] = probes.get("interrupt_delivered", 0) + 1
        elif sem is not None and fault and fault["kind"] == "foreign" and type(e).__name__ == fault["exc"]:
            if probes is not None:
                probes["foreign_exception_crossed_parse"] = probes.get("foreign_exception_crossed_parse", 0) + 1
    if intr is not None and not intr.fired:
        res = {"not_interrupted": res}
    if raw and isinstance(res, dict) and "value" in res and not isinstance(raw[0], (str, int, float, bool, type(None))):
        _VCTR[0] += 1
        H[f"v{_VCTR[0]}"] = ("val", raw[0])
        if len([k for k in H if k.startswith("v")]) > 6:
            H.pop(next(k for k in H if k.startswith("v")))  # the caller lets go of the oldest result
    if cfg_obj is not None:
        after = canon_config(cfg_obj)
        if after != cfg_before:
            res = {"config_mutated": [k for k in after if after[k] != cfg_before.get(k)], "res": res}
    if bld_obj is not None:
        after = canon_builder_obj(bld_obj)
        if after != bld_before:
            res = {"config_mutated": ["builder:" + k for k in after if after[k] != bld_before.get(k)], "res": res}
    return res


def compile_(src, filename):
    return compile(src, filename, "exec")


def dump_handles(H):
    out = {}
    for h, (k, obj) in H.items():
        if k in ("sem", "cfg", "bld"):
            continue
        try:
            if k == "val":
                out[h] = {"value": canon(obj)}
                continue
            out[h] = dump_model(obj) if k == "model" else dump_parser(obj)
        except Exception as e:  # noqa: BLE001
            out[h] = {"dump_failed": type(e).__name__ + ": " + str(e)[:200]}
    return out


# ------------------------------------------------------------------------------- fork machinery
def fork_eval(fn, timeout=120.0):
    """Run fn() in a forked child of this (fresh) process; returns its result or raises HarnessError."""
    r, w = os.pipe()
    sys.stdout.flush()
    pid = os.fork()
    if pid == 0:
        code = 0
        try:
            os.close(r)
            try:
                data = pickle.dumps(("ok", fn()))
            except BaseException:  # noqa: BLE001
                data = pickle.dumps(("err", traceback.format_exc()[-4000:]))
            with os.fdopen(w, "wb") as f:
                f.write(data)
        except BaseException:  # noqa: BLE001
            code = 3
        finally:
            os._exit(code)
    os.close(w)
    chunks = []
    deadline = time.time() + timeout
    try:
        while True:
            left = deadline - time.time()
            if left <= 0:
                os.kill(pid, signal.SIGKILL)
                os.waitpid(pid, 0)
                raise HarnessError("forked evaluation timed out")
            rl, _, _ = select.select([r], [], [], min(left, 5.0))
            if rl:
                b = os.read(r, 1 << 20)
                if not b:
                    break
                chunks.append(b)
    finally:
        os.close(r)
    _, status = os.waitpid(pid, 0)
    if not chunks:
        raise HarnessError(f"forked evaluation died without a result (wait status {status})")
    kind, val = pickle.loads(b"".join(chunks))
    if kind == "err":
        raise HarnessError("forked evaluation failed:\n" + val)
    return val


_REF_MEMO: dict[str, dict] = {}
_ZYGOTE = {"ready": False}
_CUR_SIM = [None]


class CoopLock:
    """Wrapper put around module-level locks of tatsu: a simulated task that finds the lock taken yields the
    baton instead of blocking for real (the holder is a parked task and could never release it otherwise)."""

    def __init__(self, real):
        self._real = real

    def acquire(self, blocking=True, timeout=-1):
        sim = _CUR_SIM[0]
        if sim is None or sim.me() is None:
            return self._real.acquire(blocking, timeout)
        while True:
            if self._real.acquire(False):
                return True
            if not blocking:
                return False
            sim.probe("lock_contended")
            sim.yield_point("lock")

    def release(self):
        self._real.release()

    def locked(self):
        return self._real.locked()

    def __enter__(self):
        self.acquire()
        return self

    def __exit__(self, *exc):
        self.release()
        return False


def coop_wrap_locks():
    import _thread

    lock_types = (type(_thread.allocate_lock()), type(threading.RLock()))
    n = 0
    for name, mod in list(sys.modules.items()):
        if not (name == "tatsu" or name.startswith("tatsu.")) or mod is None:
            continue
        for k, v in list(vars(mod).items()):
            if isinstance(v, lock_types):
                setattr(mod, k, CoopLock(v))
                n += 1
            elif isinstance(v, type) and getattr(v, "__module__", None) == name:
                for ck, cv in list(vars(v).items()):
                    if isinstance(cv, lock_types):
                        setattr(v, ck, CoopLock(cv))
                        n += 1
    return n


def ensure_zygote():
    """Import tatsu (and every submodule, so no import happens later under a parked import lock).  No API call."""
    if _ZYGOTE["ready"]:
        return
    import importlib
    import pkgutil

    import tatsu

    for mi in pkgutil.walk_packages(tatsu.__path__, "tatsu."):
        if any(part in mi.name for part in (".tool", "__main__", ".g2e", "test_", ".cling", ".diagrams", ".railroads", "checkpygments")):
            continue
        try:
            importlib.import_module(mi.name)
        except Exception:  # noqa: BLE001
            pass
    _ZYGOTE["locks_wrapped"] = coop_wrap_locks()
    _ZYGOTE["ready"] = True


def calibration_descriptors(seed: int):
    """Calls that EVERY hash-seed family evaluates in a fresh process (once per family), so that the comparison across
    PYTHONHASHSEED values does not depend on two random histories happening to contain the same call: for a rotating
    dozen of grammars (plus those whose rule names differ only in underscores) the one-shot parse, the generated
    source, and the generated parser started at each of its rules."""
    names = sorted(g for g in GRAMMARS if g not in ("bad", "manypat"))
    rot = [names[(seed * 7 + i * 5) % len(names)] for i in range(10)] + ["us", "kw_c", "typed_c", "bad2"]
    out = []
    for g in dict.fromkeys(rot):
        text = GOOD_INPUT.get(g, INPUTS[g][0])
        out.append({"op": "parse", "g": g, "text": text, "name": None, "asmodel": False, "sem": "none", "settings": {}})
        out.append({"op": "parse", "g": g, "text": text, "name": None, "asmodel": True, "sem": "none", "settings": {"parseinfo": True}})
        out.append({"op": "src", "g": g, "name": None})
        load = {"op": "load", "g": g, "name": None}
        for st in [None] + [x for x in start_choices(g) if x][:3]:
            op = {"op": "pparse", "g": g, "text": text, "creator": load}
            if st:
                op["start"] = st
            out.append(op)
    return out


def worker_init(d):
    ensure_zygote()
    dump = os.environ.get("VERIF_REF_DUMP")
    if dump:
        # the first worker of a family does the calibration calls
        try:
            os.makedirs(dump, exist_ok=True)
            fd = os.open(os.path.join(dump, "calibration.lock"), os.O_CREAT | os.O_EXCL | os.O_WRONLY)
            os.close(fd)
        except OSError:
            return
        for desc in calibration_descriptors(int(os.environ.get("VERIF_SEED", "0") or 0)):
            try:
                eval_reference(desc)
            except HarnessError:
                pass


def ref_descriptor(op, creators):
    d = {k: v for k, v in op.items() if k not in ("out",)}
    if "h" in op:
        c = creators.get(op["h"])
        # the creating call is replayed without its interruption (where the N-th line falls depends on warm caches)
        d["creator"] = None if c is None else {k: v for k, v in c.items() if k != "out" and not (k == "fault" and v["kind"] == "interrupt")}
        d.pop("h")
    return d


def eval_reference(desc):
    key = json.dumps(desc, sort_keys=True)
    if key in _REF_MEMO:
        return _REF_MEMO[key]

    def work():
        H = {}
        op = dict(desc)
        creator = op.pop("creator", "absent")
        if creator != "absent":
            if creator is None:
                return {"skip": "no-handle"}
            c = dict(creator)
            c["out"] = "h"
            exec_op(c, H)
            op["h"] = "h"
        if op["op"] in ("compile", "load"):
            op["out"] = "o"
        return exec_op(op, H)

    res = fork_eval(work)
    _REF_MEMO[key] = res
    return res


def prefetch_references(descs):
    """Evaluate the not yet memoised references of one run, sharing the creating call between the calls that use the same
    handle: one child executes `fresh process + creating call`, then forks one grandchild per dependent call, so every
    grandchild is in exactly the state the single evaluation would be in (fresh + creator), at a fraction of the cost."""
    groups = {}
    for d in descs:
        key = json.dumps(d, sort_keys=True)
        if key in _REF_MEMO or d.get("creator", "absent") in ("absent", None):
            continue
        groups.setdefault(json.dumps(d["creator"], sort_keys=True), {})[key] = d
    for ckey, members in groups.items():
        if len(members) < 2:
            continue
        creator = json.loads(ckey)

        def work(creator=creator, members=members):
            H = {}
            c = dict(creator)
            c["out"] = "h"
            exec_op(c, H)
            out = {}
            for key, d in members.items():
                op = {k: v for k, v in d.items() if k != "creator"}
                op["h"] = "h"
                out[key] = fork_eval(lambda op=op: exec_op(op, dict(H)))
            return out

        for key, res in fork_eval(work, timeout=300).items():
            _REF_MEMO[key] = res


# ------------------------------------------------------------------------------- spec generation
_HCTR = [0]


def gen_call(rng, handles, models_only=False, allow_fault=True, focus=None):
    """One operation.  `handles`: dict h -> creating op (mutated when the op creates a handle).
    `focus`: restrict the whole history to one family of related grammars (same type / rule / keyword names)."""
    models = [h for h, c in handles.items() if c["op"] == "compile"]
    parsers = [h for h, c in handles.items() if c["op"] == "load"]
    r = rng.random()
    g = rng.choice(list(GRAMMARS))
    k = rng.random()
    if k < 0.4 and handles:
        g = rng.choice(list(handles.values()))["g"]  # revisit grammars already in the cache
    elif k < 0.7 and handles:
        # a *related* grammar: same type names / rule names / keywords with another meaning (cross-grammar contamination)
        g0 = rng.choice(list(handles.values()))["g"]
        fam = next((f for f in FAMILIES if g0 in f), None)
        if fam:
            g = rng.choice(fam)
    if focus:
        g = rng.choice(focus)
    op = None
    if models and r < 0.40:
        h = rng.choice(models)
        gg = handles[h]["g"]
        op = {"op": "mparse", "h": h, "g": gg, "text": rng.choice(INPUTS[gg])}
        if rng.random() < 0.3:
            op["start"] = rng.choice(start_choices(gg))
        if rng.random() < 0.25:
            op["sem"] = rng.choice(SEMS)
            if rng.random() < 0.25:
                op["sem"] = "reenter"
                op["inner"] = rng.choice(INPUTS[gg])
            elif rng.random() < 0.3:
                op["semh"] = rng.choice(list(SEM_HANDLES))
                op["sem"] = SEM_HANDLES[op["semh"]]
        elif rng.random() < 0.4:
            op["asmodel"] = True
        if rng.random() < 0.2:
            op["settings"] = rng.choice(SETTINGS_POOL)
        if rng.random() < 0.1:
            op["cfg"] = rng.choice([{"parseinfo": True}, {"nameguard": False}, {"name": "Cfg"}, {"ignorecase": True}])
            if rng.random() < 0.6:
                op["cfgh"] = rng.choice(list(CFG_HANDLES))
                op["cfg"] = dict(CFG_HANDLES[op["cfgh"]])
    elif parsers and r < 0.5:
        h = rng.choice(parsers)
        gg = handles[h]["g"]
        op = {"op": "pparse", "h": h, "g": gg, "text": rng.choice(INPUTS[gg])}
        if rng.random() < 0.3:
            op["start"] = rng.choice(start_choices(gg))
        if rng.random() < 0.25:
            op["sem"] = rng.choice(SEMS)
        elif rng.random() < 0.25:
            op["asmodel"] = True
        if rng.random() < 0.2:
            op["settings"] = rng.choice(SETTINGS_POOL)
    elif r < 0.75:
        op = {"op": "compile", "g": g, "name": rng.choice(NAMES), "asmodel": rng.random() < 0.4,
              "sem": rng.choice(SEMS) if rng.random() < 0.35 else "none", "settings": rng.choice(SETTINGS_POOL)}
        if rng.random() < 0.1:
            op["cfg"] = rng.choice(CALL_SETTINGS)
        if op["sem"] == "none" and rng.random() < 0.2:
            op["builder"] = rng.choice(BUILDER_POOL)
        if op["sem"] != "none" and rng.random() < 0.4:
            op["semh"] = rng.choice(list(SEM_HANDLES))  # the same semantics object for several models
            op["sem"] = SEM_HANDLES[op["semh"]]
        _HCTR[0] += 1
        h = f"m{_HCTR[0]}"
        op["out"] = h
        handles[h] = op
    elif r < 0.87:
        op = {"op": "parse", "g": g, "text": rng.choice(INPUTS[g]), "name": rng.choice(NAMES), "asmodel": rng.random() < 0.4,
              "sem": rng.choice(SEMS) if rng.random() < 0.35 else "none", "settings": rng.choice(SETTINGS_POOL)}
        if rng.random() < 0.2:
            op["start"] = rng.choice(start_choices(g))
        if op["sem"] == "none" and rng.random() < 0.15:
            op["builder"] = rng.choice(BUILDER_POOL)
    elif r < 0.91:
        op = {"op": "src", "g": g, "name": rng.choice(NAMES)}
    elif r < 0.94:
        op = {"op": "pymodel", "g": g, "name": rng.choice(NAMES)}
    elif r < 0.98 and not models_only:
        op = {"op": "load", "g": g, "name": rng.choice(["P", "Q", None])}
        if rng.random() < 0.25:
            op["init"] = dict(rng.choice(PARSER_INIT))  # settings given to the parser object when it is made
        _HCTR[0] += 1
        h = f"p{_HCTR[0]}"
        op["out"] = h
        handles[h] = op
    elif handles and not models_only:
        h = rng.choice(list(handles))
        op = {"op": "drop", "h": h, "g": handles[h]["g"]}
        del handles[h]
    else:
        op = {"op": "parse", "g": g, "text": rng.choice(INPUTS[g]), "name": None, "asmodel": False, "sem": "none", "settings": {}}
    if allow_fault and op["op"] in ("parse", "mparse", "pparse", "compile") and rng.random() < 0.25:
        k = rng.random()
        if k < 0.4 and op["op"] != "compile":
            op["sem"] = rng.choice(["id", "tag", "num", "eq", "fa", "fb", "fc"])
            op.pop("semh", None)
            op["fault"] = {"kind": "failsem", "nth": rng.choice([1, 1, 2, 3])}
        elif k < 0.7 and op["op"] != "compile":
            op.pop("semh", None)
            op["sem"] = rng.choice(["id", "tag", "num", "eq", "fa", "fb", "fc"])
            op["fault"] = {"kind": "foreign", "nth": rng.choice([1, 1, 2, 3]), "exc": rng.choice(["KeyError", "ValueError", "TypeError", "SemFault"])}
        else:
            op["fault"] = {"kind": "interrupt", "nth": int(10 ** rng.uniform(0, 3.7)),
                           "exc": rng.choice(["KeyboardInterrupt", "KeyboardInterrupt", "MemoryError", "RecursionError"])}
    return op


GOOD_INPUT = {"bad2": "x", "nc_a": "end_ifx", "nc_b": "end_ifx", "nc_c": "a-bc", "nc_d": "x$y", "us": "x", "typed_s": "1", "typed_n": "1 a", "typed_e": "b", "wide": "undo", "wide_b": "add 1", "clo_n": "1", "opt_n": "let a = 1", "bt": "1-2", "bt_b": "a-b", "cmt_a": "1 (* c *) 2", "cmt_b": "1 {c} 2", "cmt_c": "1 2", "clo": "1", "clo_b": "1", "opt": "-1!", "join": "1", "nlist": "1,2", "inh": "x y", "nomemo": "x", "kwparams": "1", "kwparams_b": "1", "eol": "a\nb", "choice_b": "0x1f", "lrec_b": "a+b", "typed_tok": "begin 42", "kw_c": "IF", "manypat": "x71y", "cn_a": "7", "cn_b": "x", "cn_c": "x", "cn_d": "7 ab", "nums": "1", "nums_b": "1", "tok_a": "end if", "tok_b": "end  if", "pat_a": "12 34", "pat_b": "12  34", "ref": "12 ab", "choice": "a", "typed": "1", "typed_b": "1", "typed_c": "1 a", "typed_d": "ab", "params": "1", "kw": "x", "kw_b": "x",
              "icase": "x", "ws": "ab cd", "const": "a", "named": "1", "over": "(1)", "lrec": "1", "cut": "x y", "two": "ab"}


def _pair_kw(rng, g, base_kw):
    """Per-call options of one parse in a pair history: mostly the history's common options (the same arguments on
    different objects is how leftovers of one call show in another), sometimes none, sometimes something else."""
    k = rng.random()
    if k < 0.7:
        return dict(base_kw)
    if k < 0.85:
        return {}
    k = rng.random()
    if k < 0.3:
        return {"asmodel": True}
    if k < 0.5:
        return {"sem": rng.choice(["id", "tag", "num", "eq", "fa", "fb", "fc"])}
    if k < 0.75:
        return {"start": rng.choice(start_choices(g))}
    return {"settings": rng.choice(CALL_SETTINGS)}


def gen_pair_history(rng, handles):
    """Two related grammars (or one grammar twice), each obtained and used in a chosen way, interleaved:
    the shape in which one call's leftovers change what another call returns."""
    fam = rng.choice(FAMILIES)
    g1 = rng.choice(fam)
    g2 = rng.choice(fam) if rng.random() < 0.6 else g1
    # calls that differ only in what a cache key might leave out: same name and settings most of the time
    base_name = rng.choice(NAMES)
    base_pname = rng.choice(["P", "Q", None])
    base_settings = rng.choice([{}, {}, {}, {"parseinfo": True}, {"nameguard": False}, {"left_recursion": False}])
    scenario = rng.choice(["models", "models", "parsers", "parsers", "mixed"])
    k = rng.random()
    if scenario == "parsers":
        # for long-lived parser objects the start rule and asmodel are the per-call options that matter most
        k = 0.3 + 0.55 * k if k < 0.9 else 0.9
    if k < 0.25:
        base_kw = {}
    elif k < 0.45:
        base_kw = {"asmodel": True}
    elif k < 0.7:
        base_kw = {"start": rng.choice([x for x in start_choices(g1) if x])}
    elif k < 0.85:
        base_kw = {"sem": rng.choice(["id", "tag", "num", "eq", "fa", "fb", "fc"])}
    else:
        base_kw = {"settings": rng.choice(CALL_SETTINGS)}
    seqs = []
    for g in (g1, g2):
        if scenario == "models":
            how = rng.choice(["model", "model", "oneshot"])
        elif scenario == "parsers":
            how = "parser"
        else:
            how = rng.choice(["model", "oneshot", "parser"])
        text = GOOD_INPUT.get(g, INPUTS[g][0]) if rng.random() < 0.75 else rng.choice(INPUTS[g])
        seq = []
        if how == "model":
            c = {"op": "compile", "g": g, "name": base_name if rng.random() < 0.75 else rng.choice(NAMES), "asmodel": rng.random() < 0.4, "sem": "none",
                 "settings": dict(base_settings) if rng.random() < 0.75 else rng.choice(SETTINGS_POOL)}
            k = rng.random()
            if k < 0.2:
                c["sem"] = rng.choice(["id", "tag", "tag", "num", "eq", "fa", "fb", "fb", "fc"])  # 'tag' and 'fb' report all they are given
            elif k < 0.45:
                c["builder"] = rng.choice(BUILDER_POOL)
            _HCTR[0] += 1
            c["out"] = f"m{_HCTR[0]}"
            handles[c["out"]] = c
            seq.append(c)
            if rng.random() < 0.25:
                rtext = rng.choice(INPUTS[g])
                src = rng.choice([{}, {"source": "input.txt"}])
                for extra in rng.sample([{}, {"ignorecase": True}, {"whitespace": ""}, {"nameguard": False}, {"parseinfo": True}], k=2):
                    seq.append({"op": "mparse", "h": c["out"], "g": g, "text": rtext, "settings": {**src, **extra}})
            else:
                for j in range(rng.choice([1, 1, 2, 3])):
                    pz = {"op": "mparse", "h": c["out"], "g": g, "text": text}
                    pz.update(_pair_kw(rng, g, base_kw))
                    if rng.random() < (0.15 if j == 0 else 0.5):
                        pz["text"] = rng.choice(INPUTS[g])  # the same call on another input (other positions, other lines)
                    seq.append(pz)
        elif how == "oneshot":
            for _ in range(rng.choice([1, 2])):
                pz = {"op": "parse", "g": g, "text": text, "name": base_name if rng.random() < 0.75 else rng.choice(NAMES), "asmodel": rng.random() < 0.5, "sem": "none",
                      "settings": dict(base_settings) if rng.random() < 0.75 else rng.choice(SETTINGS_POOL)}
                k = rng.random()
                if k < 0.2:
                    pz["sem"] = rng.choice(["id", "tag", "num", "eq", "fa", "fb", "fc"])
                elif k < 0.35:
                    pz["builder"] = rng.choice(BUILDER_POOL)
                seq.append(pz)
        else:
            c = {"op": "load", "g": g, "name": base_pname if rng.random() < 0.93 else rng.choice(["P", "Q", None])}
            _HCTR[0] += 1
            c["out"] = f"p{_HCTR[0]}"
            handles[c["out"]] = c
            seq.append(c)
            if rng.random() < 0.5:
                # the fallback pattern: the same text on the same object again, with other settings
                rtext = rng.choice(INPUTS[g])
                src = rng.choice([{}, {"source": "input.txt"}, {"source": "input.txt"}])
                for extra in rng.sample([{}, {}, {"ignorecase": True}, {"whitespace": ""}, {"nameguard": False}, {"parseinfo": True}, {"whitespace": "[ ]+"}, {"keywords": ["x", "iff"]}], k=rng.choice([2, 3, 4])):
                    seq.append({"op": "pparse", "h": c["out"], "g": g, "text": rtext, "settings": {**src, **extra}})
            else:
                for _ in range(rng.choice([1, 2, 2])):
                    pz = {"op": "pparse", "h": c["out"], "g": g, "text": text if rng.random() < 0.7 else rng.choice(INPUTS[g])}
                    pz.update(_pair_kw(rng, g, base_kw))
                    seq.append(pz)
        seqs.append(seq)
    ops = []
    a, b = seqs
    first_handle = next((o["out"] for o in a if o["op"] in ("compile", "load")), None)
    if scenario == "parsers" and first_handle is not None and rng.random() < 0.25:
        ch = {"op": "churn", "h": first_handle, "g": a[0]["g"], "text": rng.choice(INPUTS[a[0]["g"]]), "count": rng.choice([60, 150])}
        if "start" in base_kw:
            ch["start"] = base_kw["start"]
        elif rng.random() < 0.7:
            ch["start"] = rng.choice([x for x in start_choices(a[0]["g"]) if x])
        a.insert(1, ch)
        second_handle = next((o["out"] for o in b if o["op"] == "load"), None)
        if second_handle is not None:
            # ... and many short-lived objects of the other parser class afterwards, each of which may be given such an address
            ch2 = {"op": "churn", "h": second_handle, "g": b[0]["g"], "text": GOOD_INPUT.get(b[0]["g"], INPUTS[b[0]["g"]][0]), "count": rng.choice([150, 400])}
            if "start" in ch:
                ch2["start"] = ch["start"]
            b.append(ch2)
            ops = [*a, *b]
            a, b = [], []
    if first_handle is not None and rng.random() < 0.3 and a:
        # one after the other, the first object dropped and collected in between: its address may be handed to the second
        ops = [*a, {"op": "drop", "h": first_handle, "g": a[0]["g"]}, *b]
        handles.pop(first_handle, None)
        a, b = [], []
    # interleave, keeping each sequence's own order
    while a or b:
        if a and (not b or rng.random() < 0.5):
            ops.append(a.pop(0))
        else:
            ops.append(b.pop(0))
    # sometimes a fault on one of the parses, sometimes a few unrelated calls in between
    if rng.random() < 0.3:
        cands = [o for o in ops if o["op"] in ("mparse", "pparse", "parse")]
        if cands:
            o = rng.choice(cands)
            k = rng.random()
            if k < 0.35:
                o["sem"] = rng.choice(["id", "tag", "num", "eq", "fa", "fb", "fc"])
                o["fault"] = {"kind": "failsem", "nth": 1}
            elif k < 0.65:
                o["sem"] = rng.choice(["id", "tag", "num", "eq", "fa", "fb", "fc"])
                o["fault"] = {"kind": "foreign", "nth": 1, "exc": rng.choice(["KeyError", "ValueError", "SemFault"])}
            else:
                o["fault"] = {"kind": "interrupt", "nth": int(10 ** rng.uniform(0, 3.5)), "exc": rng.choice(["KeyboardInterrupt", "MemoryError"])}
    for _ in range(rng.choice([0, 0, 1, 2])):
        ops.insert(rng.randrange(len(ops) + 1), gen_call(rng, handles, focus=fam))
    # an inserted op may reference a handle created later in the list: keep only well-ordered ones
    live, out = set(), []
    for o in ops:
        if "h" in o and o["h"] not in live:
            continue
        if o["op"] in ("compile", "load"):
            live.add(o["out"])
        if o["op"] == "drop":
            live.discard(o["h"])
        out.append(o)
    return out


def gen_service_history(rng, handles):
    """The everyday shape: ONE model or parser object, obtained once with its options, then many different inputs parsed with
    the same per-call options (what one input leaves behind is what the next one meets)."""
    g = rng.choice([x for x in GRAMMARS if x not in ("bad", "manypat")])
    ops = []
    if rng.random() < 0.6:
        c = {"op": "compile", "g": g, "name": rng.choice(NAMES), "asmodel": rng.random() < 0.3, "sem": "none", "settings": rng.choice([{}, {}, {"parseinfo": True}, {"nameguard": False}])}
        k = rng.random()
        if k < 0.4:
            c["sem"] = rng.choice(["tag", "tag", "fb", "fb", "id", "num", "eq", "fa", "fc"])
            c["asmodel"] = False
        elif k < 0.6:
            c["builder"] = rng.choice(BUILDER_POOL)
        kind = "mparse"
    else:
        c = {"op": "load", "g": g, "name": rng.choice(["P", "Q", None])}
        kind = "pparse"
    _HCTR[0] += 1
    c["out"] = f"{'m' if kind == 'mparse' else 'p'}{_HCTR[0]}"
    handles[c["out"]] = c
    ops.append(c)
    k = rng.random()
    if k < 0.3:
        kw = {}
    elif k < 0.6:
        kw = {"settings": {"parseinfo": True}}
    elif k < 0.7:
        kw = {"asmodel": True}
    elif k < 0.8:
        kw = {"start": rng.choice([x for x in start_choices(g) if x] or ["start"])}
    elif k < 0.9 and kind == "pparse":
        kw = {"sem": rng.choice(["tag", "fb"]), "semh": None}
    else:
        kw = {"settings": rng.choice(CALL_SETTINGS)}
    if kw.get("semh", 0) is None:
        kw["semh"] = rng.choice(["S1", "S4"])
        kw["sem"] = SEM_HANDLES[kw["semh"]]
    for _ in range(rng.choice([3, 4, 5, 6])):
        pz = {"op": kind, "h": c["out"], "g": g, "text": rng.choice(INPUTS[g])}
        pz.update(copy.deepcopy(kw))
        ops.append(pz)
    return ops


# per-call settings that MATTER to a grammar (the parse takes another path under them), so that "unusual first, plain
# later" histories are not mostly about settings the grammar never looks at
_MEMO = [{"memoization": True}, {"left_recursion": True}, {"memoization": False}, {"memoization": False}, {"left_recursion": False}, {"memoization": False, "parseinfo": True}, {"memoization": False, "left_recursion": False}]
_CASE = [{"ignorecase": True}, {"nameguard": False}, {"keywords": ["x", "iff"]}, {"namechars": "_"}, {"ignorecase": True, "nameguard": False}]
_SPACE = [{"whitespace": ""}, {"whitespace": "[ ]+"}, {"nameguard": False}, {"whitespace": "[ \\t\\n]+"}]
_CMT = [{"comments": "\\{[^}]*\\}"}, {"eol_comments": ";[^\\n]*"}, {"comments": "\\(\\*((?:.|\\n)*?)\\*\\)", "eol_comments": "#([^\\n]*?)$"}, {"comments": None}]
RELEVANT_SETTINGS = {
    **{g: _MEMO for g in ("bt", "bt_b", "lrec", "lrec_b", "cut", "choice", "choice_b", "nomemo", "clo", "opt", "join")},
    **{g: _CASE for g in ("kw", "kw_b", "kw_c", "icase", "tok_a")},
    **{g: [{"namechars": "_"}, {"namechars": "-$"}, {"namechars": ""}, {"nameguard": False}, {"nameguard": True}, {"namechars": "_-$."}] for g in ("nc_a", "nc_b", "nc_c", "nc_d")},
    **{g: _SPACE for g in ("ws", "tok_b", "pat_a", "pat_b", "eol", "ref")},
    **{g: _CMT for g in ("cmt_a", "cmt_b", "cmt_c")},
    **{g: [{"parseinfo": True}, {"parseinfo": True}, {"memoization": False}] for g in ("typed", "typed_c", "typed_tok", "nums")},
}


def gen_firstuse_history(rng, handles):
    """ONE model or parser object whose FIRST use happens under unusual per-call options (another start rule, memoisation
    or left recursion off, other white space / comments / case rules, a trace), followed by plain calls on the same
    inputs: whatever an object works out lazily on first use (rule analysis, call infos, lookup tables, compiled
    patterns) must not keep the colour of the call that happened to come first.  Also the other way round."""
    g = rng.choice([x for x in GRAMMARS if x not in ("bad", "manypat")])
    relevant = rng.random() < 0.65
    if relevant:
        g = rng.choice(sorted(RELEVANT_SETTINGS))
    ops = []
    sem = rng.choice(["none", "none", "ord", "ord", "tag", "id", "fb"])
    if rng.random() < 0.65:
        c = {"op": "compile", "g": g, "name": rng.choice(NAMES), "asmodel": sem == "none" and rng.random() < 0.3, "sem": sem,
             "settings": rng.choice([{}, {}, {}, {"parseinfo": True}])}
        kind = "mparse"
        call_sem = {}
    else:
        c = {"op": "load", "g": g, "name": rng.choice(["P", "Q", None])}
        if rng.random() < 0.5:
            # the object's own settings are the opposite of what one call asks for (memoization off, on for one call)
            c["init"] = dict(rng.choice(PARSER_INIT))
        kind = "pparse"
        call_sem = {} if sem == "none" else {"sem": sem}
    _HCTR[0] += 1
    c["out"] = f"{'m' if kind == 'mparse' else 'p'}{_HCTR[0]}"
    handles[c["out"]] = c
    ops.append(c)
    k = rng.random()
    if relevant and k < 0.8:
        odd = {"settings": dict(rng.choice(RELEVANT_SETTINGS[g]))}
    elif k < 0.7:
        odd = {"settings": dict(rng.choice([x for x in SETTINGS_POOL + CALL_SETTINGS if x]))}
    elif k < 0.85:
        odd = {"start": rng.choice([x for x in start_choices(g) if x] or ["start"])}
    else:
        odd = {"asmodel": True}
    init = c.get("init") or {}
    flags = [k for k, v in init.items() if isinstance(v, bool)]
    if flags and rng.random() < 0.7:
        # one call asks for the opposite of what the object was made with (memoization off in general, on for this input)
        odd = {"settings": {k: (not init[k]) for k in flags}}
    texts = [rng.choice([GOOD_INPUT.get(g, INPUTS[g][0]), rng.choice(INPUTS[g])]) for _ in range(rng.choice([1, 2, 3]))]
    first = [dict({"op": kind, "h": c["out"], "g": g, "text": t}, **copy.deepcopy(odd), **call_sem) for t in texts[: rng.choice([1, 1, 2])]]
    plain = [dict({"op": kind, "h": c["out"], "g": g, "text": t}, **call_sem) for t in texts]
    if rng.random() < 0.75:
        ops += first + plain
    else:
        ops += plain[:1] + first + plain
    if rng.random() < 0.3:
        ops.append(dict({"op": kind, "h": c["out"], "g": g, "text": texts[0]}, **copy.deepcopy(odd), **call_sem))
    return ops


K3_FIELDS = [{"ignorecase": True}, {"ignorecase": False}, {"whitespace": ""}, {"nameguard": False}, {"parseinfo": True}, {"source": "first.txt"}, {"source": "second.txt"}, {}]


def gen_config_history(rng, handles):
    """An application that keeps ONE ParserConfig object, passes it to every call as config=, and changes its fields in
    place between calls (cfg.start = ..., cfg.ignorecase = True) - also across grammars.  Every call must behave as it
    would with a fresh config object of equal contents; nothing a call learnt from the object earlier may stick."""
    g = rng.choice(["kw", "kw_c", "icase", "ws", "tok_a", "ref", "two", "choice", "typed", "cmt_c", "eol"])
    ops = []
    _HCTR[0] += 1
    m = f"m{_HCTR[0]}"
    c = {"op": "compile", "g": g, "name": rng.choice(NAMES), "asmodel": False, "sem": "none", "settings": {}, "out": m}
    handles[m] = c
    ops.append(c)
    m2 = None
    if rng.random() < 0.4:
        g2 = rng.choice(next((f for f in FAMILIES if g in f), [g]))
        _HCTR[0] += 1
        m2 = f"m{_HCTR[0]}"
        c2 = {"op": "compile", "g": g2, "name": rng.choice(NAMES), "asmodel": False, "sem": "none", "settings": {}, "out": m2}
        handles[m2] = c2
        ops.append(c2)
    pool = list(K3_FIELDS) + [{"start": x} for x in start_choices(g) if x] + [dict(x) for x in RELEVANT_SETTINGS.get(g, []) if set(x) <= {"ignorecase", "whitespace", "nameguard", "parseinfo"}]
    contents = dict(rng.choice(pool))
    text = rng.choice([GOOD_INPUT.get(g, INPUTS[g][0]), rng.choice(INPUTS[g])])
    for i in range(rng.choice([2, 3, 4, 5])):
        h = m2 if (m2 and rng.random() < 0.35) else m
        gg = handles[h]["g"]
        ops.append({"op": "mparse", "h": h, "g": gg, "text": text if gg == g and rng.random() < 0.7 else rng.choice(INPUTS[gg]), "cfgh": "K3", "cfg": dict(contents)})
        k = rng.random()
        if k < 0.7:
            contents = {**contents, **rng.choice(pool)} if rng.random() < 0.5 else dict(rng.choice(pool))
    return ops


def gen_paths_history(rng, handles):
    """ONE grammar under ONE name and ONE set of options, reached through every road the API has, in random order:
    compile + model.parse, the one-shot tatsu.parse, to_python_sourcecode, to_python_model, generated parser + parse -
    with inputs that succeed and inputs that fail.  All roads share one cached model: what one of them works out lazily
    on it (first sets, lookahead lists, expected-token messages, rule infos) must not change what another one returns."""
    g = rng.choice([x for x in GRAMMARS if x not in ("bad", "manypat")])
    if rng.random() < 0.5:
        g = rng.choice(["wide", "wide_b", "clo_n", "opt_n", "clo", "opt", "join", "nlist", "choice", "choice_b", "cut", "lrec", "lrec_b", "bt", "kw", "typed_c", "over", "inh"])
    name = rng.choice([None, None, None, "A", "P"])
    settings = dict(rng.choice([{}, {}, {}, {"parseinfo": True}, {"nameguard": False}, {"ignorecase": True}]))
    texts = list(INPUTS[g])
    ops = []
    model = parser = None
    for _ in range(rng.choice([4, 5, 6, 7, 9])):
        k = rng.random()
        if k < 0.22:
            if model is None or rng.random() < 0.2:
                _HCTR[0] += 1
                model = f"m{_HCTR[0]}"
                c = {"op": "compile", "g": g, "name": name, "asmodel": False, "sem": "none", "settings": dict(settings), "out": model}
                handles[model] = c
                ops.append(c)
            ops.append({"op": "mparse", "h": model, "g": g, "text": rng.choice(texts)})
        elif k < 0.4 and model is not None:
            ops.append({"op": "mparse", "h": model, "g": g, "text": rng.choice(texts)})
        elif k < 0.55:
            ops.append({"op": "parse", "g": g, "text": rng.choice(texts), "name": name, "asmodel": False, "sem": "none", "settings": dict(settings)})
        elif k < 0.72:
            ops.append({"op": "src", "g": g, "name": name, "settings": dict(settings)})
        elif k < 0.8:
            ops.append({"op": "pymodel", "g": g, "name": name})
        else:
            if parser is None:
                _HCTR[0] += 1
                parser = f"p{_HCTR[0]}"
                c = {"op": "load", "g": g, "name": name, "out": parser}
                handles[parser] = c
                ops.append(c)
            ops.append({"op": "pparse", "h": parser, "g": g, "text": rng.choice(texts)})
    return ops


def gen_builder_history(rng, handles):
    """An application that creates ONE BuilderConfig object (or one list of constructors) and passes it to every call,
    with per-call modules of node classes (typedefs) whose class names overlap: what one call leaves in the caller's
    object is what the next call is given."""
    fam = ["typed", "typed_b", "typed_c", "typed_d", "params"]
    bh = rng.choice(["B1", "B1", "B2"])
    pool = [b for b in BH_POOL if b.get("bh", bh) == bh]
    ops = []
    for _ in range(rng.choice([2, 3, 4, 5, 7])):
        g = rng.choice(fam)
        b = dict(rng.choice(pool))
        models = [h for h, c in handles.items() if c["op"] == "compile"]
        r = rng.random()
        if models and r < 0.3:
            h = rng.choice(models)
            gg = handles[h]["g"]
            ops.append({"op": "mparse", "h": h, "g": gg, "text": rng.choice([GOOD_INPUT[gg], rng.choice(INPUTS[gg])])})
        elif r < 0.65:
            op = {"op": "compile", "g": g, "name": rng.choice([None, None, "P"]), "asmodel": rng.random() < 0.3, "sem": "none", "settings": {}, "builder": b}
            _HCTR[0] += 1
            op["out"] = f"m{_HCTR[0]}"
            handles[op["out"]] = op
            ops.append(op)
            if rng.random() < 0.6:
                ops.append({"op": "mparse", "h": op["out"], "g": g, "text": GOOD_INPUT[g]})
        else:
            ops.append({"op": "parse", "g": g, "text": rng.choice([GOOD_INPUT[g], rng.choice(INPUTS[g])]), "name": rng.choice([None, None, "P"]),
                        "asmodel": rng.random() < 0.3, "sem": "none", "settings": {}, "builder": b})
    return ops


# grammars whose TEXT takes seconds to parse when memoization is off (nested groups, wide choices: the grammar of grammars
# backtracks): a compile with memoization=False would cost 2-15 s (x5 under the line tracer) for no additional reach
CONTRADICTORY_TYPES = {"typed_e"}
SLOW_NOMEMO = {"clo_n", "opt_n", "wide", "wide_b", "manypat"}


def _tame(ops):
    for op in ops:
        if op.get("op") in ("compile", "parse", "src", "load", "pymodel") and op.get("g") in SLOW_NOMEMO:
            for key in ("settings", "cfg"):
                if isinstance(op.get(key), dict) and op[key].get("memoization") is False:
                    op[key] = {k: v for k, v in op[key].items() if k != "memoization"}
    return ops


def gen_spec(seed: int, mode: str | None = None) -> dict:
    spec = _gen_spec(seed, mode)
    _tame(spec.get("ops", []))
    _tame(spec.get("prefix", []))
    for th in spec.get("threads", []):
        _tame(th)
    return spec


def _gen_spec(seed: int, mode: str | None = None) -> dict:
    rng = random.Random(derive(seed, "spec"))
    bug = random.Random(derive(seed, "buggify"))
    if mode is None:
        mode = os.environ.get("VERIF_C10_MODE") or ("history" if rng.random() < 0.65 else "threads")
    _HCTR[0] = 0
    if mode == "history":
        handles = {}
        k = rng.random()
        if k < 0.06:
            ops = gen_builder_history(rng, handles)
        elif k < 0.15:
            ops = gen_service_history(rng, handles)
        elif k < 0.27:
            ops = gen_firstuse_history(rng, handles)
        elif k < 0.37:
            ops = gen_paths_history(rng, handles)
        elif k < 0.41:
            ops = gen_config_history(rng, handles)
        elif k < 0.72:
            ops = gen_pair_history(rng, handles)
        else:
            focus = rng.choice(FAMILIES) if rng.random() < 0.4 else None
            ops = [gen_call(rng, handles, focus=focus) for _ in range(rng.choice([3, 4, 5, 6, 8, 10, 14]))]
        if rng.random() < 0.3:
            # an application that always asks for source positions: every result then also says WHERE it was found, so a
            # leftover of another call shows even when the values happen to agree
            for op in ops:
                if op["op"] in ("parse", "mparse", "pparse"):
                    op["settings"] = {**(op.get("settings") or {}), "parseinfo": True}
        return {"property": PROP, "mode": "history", "ops": ops}
    handles = {}
    prefix = []
    # shared model(s), compiled in the prefix
    for _ in range(rng.choice([1, 1, 2])):
        g = rng.choice(["typed", "typed_c", "ref", "choice", "kw", "params", "typed_b", "const", "over", "lrec"])
        if rng.random() < 0.3:
            # grammars whose nodes work things out lazily on first use (first sets and expected-token lists of nested and
            # wide choices, comment patterns, keyword tables): two threads may be the first at the same time
            g = rng.choice(["clo_n", "opt_n", "wide", "wide_b", "bt", "nums", "cmt_a", "kw_c", "typed_tok", "cut", "lrec_b"])
        op = {"op": "compile", "g": g, "name": rng.choice(NAMES), "asmodel": rng.random() < 0.6, "sem": "none", "settings": rng.choice([{}, {}, {"parseinfo": True}])}
        if not op["asmodel"] and rng.random() < 0.4:
            op["sem"] = rng.choice(["id", "tag", "num", "eq", "fa", "fb", "fc", "ord"])  # one semantics object shared by all threads through the model
        _HCTR[0] += 1
        h = f"m{_HCTR[0]}"
        op["out"] = h
        handles[h] = op
        prefix.append(op)
    if rng.random() < 0.5:  # warm the lazily initialised state, or leave it cold
        h = rng.choice(list(handles))
        prefix.append({"op": "mparse", "h": h, "g": handles[h]["g"], "text": rng.choice(INPUTS[handles[h]["g"]])})
    warmed = rng.random() < 0.3
    if warmed:
        # a process that has been running for a while: its process-wide caches are full, and what the shared models need
        # has been pushed out again
        prefix.append({"op": "compile", "g": "manypat", "name": None, "asmodel": False, "sem": "none", "settings": {}, "out": "warm"})
        prefix.append({"op": "mparse", "h": "warm", "g": "manypat", "text": "zzz"})
    threads = []
    # several threads that each obtain "their" model lazily, with the very same compile() call, while the cache is cold
    same = None
    if rng.random() < 0.4:
        gs = rng.choice(["typed", "typed_c", "typed_b", "params", "ref", "choice", "kw", "nums"])
        same = {"op": "compile", "g": gs, "name": rng.choice(NAMES), "asmodel": rng.random() < 0.7, "sem": "none", "settings": rng.choice([{}, {}, {"parseinfo": True}])}
    for _ in range(rng.choice([2, 2, 3, 4])):
        calls = []
        th = dict(handles)  # what this thread can use: the shared models and what it compiled itself
        if same is not None and rng.random() < 0.85:
            op = dict(same)
            op["out"] = f"t{len(threads)}_s"
            th[op["out"]] = op
            calls.append(op)
            calls.append({"op": "mparse", "h": op["out"], "g": same["g"], "text": rng.choice([GOOD_INPUT[same["g"]], rng.choice(INPUTS[same["g"]])])})
        for _ in range(rng.choice([1, 1, 2, 3])):
            if rng.random() < 0.8:
                h = rng.choice(list(th))
                gg = th[h]["g"]
                call = {"op": "mparse", "h": h, "g": gg, "text": rng.choice(INPUTS[gg])}
                k = rng.random()
                if k < 0.15:
                    call["start"] = rng.choice(start_choices(gg))
                elif k < 0.3:
                    call["sem"] = rng.choice(["id", "tag", "num", "eq", "fa", "fb", "fc"])
                elif k < 0.4:
                    call["settings"] = rng.choice(CALL_SETTINGS)
                elif k < 0.5 and not th[h].get("asmodel"):
                    call["asmodel"] = True
                calls.append(call)
            else:
                hs = dict(th)
                op = gen_call(rng, hs, models_only=True, allow_fault=False)
                if op["op"] == "compile":
                    op = dict(op)
                    op["out"] = f"t{len(threads)}_{len(calls)}"
                    th[op["out"]] = op
                if op["op"] in ("drop",):
                    continue
                calls.append(op)
        threads.append(calls)
    # staggered arrival: a thread may start later — after so many lines executed by the others, or ("hot") at an instant
    # when another thread is inside one of the functions that touch shared state (check-then-act windows are a few lines wide)
    arrive = [0] * len(threads)
    staggered = rng.random() < (0.85 if (same is not None or warmed) else 0.3)
    if staggered:
        late = rng.sample(range(len(threads)), k=rng.randrange(1, len(threads)))
        for ti in late:
            if rng.random() < 0.65:
                # arrives when another thread executes its n-th line inside a function of that name
                fn = "compile" if (same is not None and rng.random() < 0.85) else rng.choice(sorted(HOT))
                arrive[ti] = {"fn": fn, "nth": rng.randrange(1, 48) if rng.random() < 0.7 else int(10 ** rng.uniform(0, 2.5))}
                if warmed and same is None and rng.random() < 0.7:
                    arrive[ti] = {"fn": rng.choice(CACHE_FUNCS), "nth": rng.randrange(1, 20)}
            else:
                arrive[ti] = int(10 ** rng.uniform(1, 4.5))
    return {"property": PROP, "mode": "threads", "prefix": prefix, "threads": threads, "arrive": arrive,
            # NOTE granularity "opcode" is implemented but not generated: CPython 3.12.1 calls a NULL c_tracefunc
            # (legacy_tracing.c:217, SIGSEGV) when a trace function raises (RecursionError at the recursion limit) while
            # per-instruction events are enabled on a code object
            # a late thread has to get through a whole call while the other one is parked a few lines further on:
            # staggered runs lean towards long time slices
            "knobs": {"granularity": "line", "mean_gap": bug.choice([20, 200, 2000, 2000, 5000] if staggered else [5, 20, 200, 2000]), "hot_boost": 10}}


# ------------------------------------------------------------------------------- running (in a forked child)
def exec_history(spec):
    gc.disable()  # collection of cycles only at the explicit points of the workload: one source of nondeterminism less
    H = {}
    out = []
    probes = {}
    cache_mod = sys.modules.get("tatsu.api.api")
    for op in spec["ops"]:
        before = dump_handles(H)
        res = exec_op(op, H, probes)
        after = dump_handles(H)
        mutated = {h: diff_keys(before[h], after[h]) for h in before if h in after and h != op.get("out") and before[h] != after[h]}
        out.append({"res": res, "mutated": mutated})
    return {"ops": out, "probes": probes}


def diff_keys(a, b, prefix=""):
    if isinstance(a, dict) and isinstance(b, dict):
        out = []
        for k in sorted(set(a) | set(b)):
            if a.get(k) != b.get(k):
                out += diff_keys(a.get(k), b.get(k), f"{prefix}{k}.")
        return out
    return [f"{prefix[:-1]}: {json.dumps(a, default=repr)[:120]} -> {json.dumps(b, default=repr)[:120]}"]


HOT = {"optimized", "ruleinfo", "lookahead", "find_cached_semantic_action", "bind", "synthesize", "_get_constructor",
       "_register_constructor", "compile", "initialize", "cached_re_compile", "set_context", "_reset", "bound", "__get__",
       "_instanceof", "_default", "link", "_calc_lookahead_sets", "find_rule", "find_semantic_action", "_enforce_limit", "__setitem__", "_scanre"}
CACHE_FUNCS = ["_enforce_limit", "__setitem__", "cached_re_compile"]


def exec_threads(spec, decider):
    gc.disable()  # a collection could run Python-level finalisers inside traced frames at an arbitrary line
    H = {}
    probes = {}
    prefix_out = []
    for op in spec["prefix"]:
        prefix_out.append({"res": exec_op(op, H, probes)})
    before = dump_handles(H)
    sim = Sim(decider, step_cap=3_000_000, keep_events=False)
    _CUR_SIM[0] = sim
    root = tatsu_root()
    knobs = spec["knobs"]
    opcode = knobs["granularity"] == "opcode"
    mean = knobs["mean_gap"] * (4 if opcode else 1)
    results = [[None] * len(calls) for calls in spec["threads"]]
    sites = []
    waiting_hot = []  # tasks parked until another thread is inside a hot function
    arrived = set()

    def make_task(ti, calls):
        st = {"left": 1 + sim.choose("gap", 2 * mean), "depth": 0}

        def local(frame, event, arg):
            if event == "return":
                st["depth"] -= 1
            elif event == ("opcode" if opcode else "line"):
                sim.now_ns += 1  # virtual time of a thread run = lines executed
                if waiting_hot and st["depth"] < 250:
                    name = frame.f_code.co_name
                    for w in waiting_hot:
                        if w[1] == name:
                            w[2] -= 1
                            if w[2] <= 0:
                                waiting_hot.remove(w)
                                # the late thread arrives now — and runs now — while this one is in the middle of that function
                                sim.probe("thread_arrived_while_other_in_hot_function")
                                st["left"] = 1 + sim.choose("gap", 2 * mean)
                                w[0].state = "runnable"
                                arrived.add(w[0])
                                sim.steps += 1
                                sim._switch_to(sim.me(), w[0])
                                return local
                st["left"] -= 1
                # no switch when the traced code is deep in (runaway) recursion: the scheduler's own frames
                # must never be the ones that hit the recursion limit
                if st["left"] <= 0 and st["depth"] < 250:
                    hot = frame.f_code.co_name in HOT
                    m = max(2, mean // knobs["hot_boost"]) if hot else mean
                    st["left"] = 1 + sim.choose("gap", 2 * m)
                    if len(sites) < 4000:
                        sites.append((frame.f_code.co_name, frame.f_lineno))
                    if hot:
                        sim.probe("switch_point_in_hot_function")
                    sim.yield_point("pre")
            return local

        def glob(frame, event, arg):
            if event == "call" and frame.f_code.co_filename.startswith(root):
                if opcode:
                    frame.f_trace_opcodes = True
                st["depth"] += 1
                return local
            return None

        def body():
            Hl = dict(H)  # handles are shared objects; the dict itself is per thread
            for w in list(waiting_hot):
                if w[0] is sim.me():
                    waiting_hot.remove(w)  # woken because nobody else could run
            sys.settrace(glob)
            try:
                for ci, op in enumerate(calls):
                    if not (ci == 0 and sim.me() in arrived):
                        sim.yield_point("op")
                    results[ti][ci] = exec_op(op, Hl, probes)
            finally:
                sys.settrace(None)

        return body

    for ti, calls in enumerate(spec["threads"]):
        t = sim.spawn(f"t{ti}", make_task(ti, calls))
        arr = (spec.get("arrive") or [0] * (ti + 1))[ti]
        if isinstance(arr, dict):
            # parked from the start: until another thread executes that line, or until nobody else can run
            t.state, t.wake = "sleeping", 10 ** 12
            waiting_hot.append([t, arr["fn"], arr["nth"]])
        elif arr:
            t.state, t.wake = "sleeping", arr
    # runaway recursion in the code under test must end as RecursionError, as it does on the main thread,
    # not as a C stack overflow of a thread with the default 8 MiB stack (traced frames are deep)
    threading.stack_size(512 * 1024 * 1024)
    sim.run_tasks(wall_timeout=100.0)
    errs = [(t.name, t.tb) for t in sim.tasks if t.exc is not None]
    after = dump_handles(H)
    mutated = {h: diff_keys(before[h], after[h]) for h in before if h in after and before[h] != after[h]}
    abort = None
    if sim.abort_reason is not None:
        abort = repr(sim.abort_reason)
    return {"prefix": prefix_out, "results": results, "mutated": mutated, "errors": errs, "abort": abort,
            "decisions": sim.decisions, "switches": sim.switches, "steps": sim.steps, "probes": dict(probes) | dict(sim.probes),
            "site_sig": digest_of(sites[:400])}


# ------------------------------------------------------------------------------- one run (called in the zygote)
class RunResult:
    __slots__ = ("violation", "digest", "decisions", "probes", "faults", "nontrivial", "state_sig",
                 "steps", "sim_ns", "events", "harness_error", "extra")

    def __init__(self):
        self.violation = None
        self.digest = ""
        self.decisions = []
        self.probes = {}
        self.faults = {}
        self.nontrivial = False
        self.state_sig = ""
        self.steps = 0
        self.sim_ns = 0
        self.events = []
        self.harness_error = None
        self.extra = {}


def op_label(op):
    bits = [op["op"]]
    if op.get("asmodel"):
        bits.append("asmodel")
    if op.get("sem", "none") != "none":
        bits.append("sem")
    if op.get("settings"):
        bits.append("settings=" + "+".join(sorted(op["settings"])))
    if op.get("name"):
        bits.append("name")
    if op.get("start"):
        bits.append("start")
    if op.get("cfg"):
        bits.append("cfg" + ("-shared" if op.get("cfgh") else ""))
    if op.get("semh"):
        bits.append("sem-shared")
    if op.get("builder"):
        bits.append("builder=" + "+".join(sorted(op["builder"])))
    if op.get("fault"):
        bits.append("fault=" + op["fault"]["kind"])
    return "/".join(bits)


def strip_private(x):
    if isinstance(x, dict):
        return {k: strip_private(v) for k, v in x.items() if not (isinstance(k, str) and k.startswith("_"))}
    if isinstance(x, list):
        return [strip_private(v) for v in x]
    return x


def compare(res, ref):
    """None if equal, else a short description."""
    where = res.get("raised", {}).get("_where") if isinstance(res, dict) and isinstance(res.get("raised"), dict) else None
    res, ref = strip_private(res), strip_private(ref)
    if res == ref:
        return None
    if where:
        d = compare(res, ref)
        return f"{d} | raised at {where}"
    if isinstance(res, dict) and isinstance(ref, dict) and set(res) == set(ref):
        d = diff_keys(res, ref)
        return "differs from the same call in a fresh process (here -> fresh): " + " | ".join(d[:4])[:1500]
    return f"got {json.dumps(res, sort_keys=True, default=repr)[:700]} ; fresh process gives {json.dumps(ref, sort_keys=True, default=repr)[:700]}"


def kind_of_diff(res, ref):
    if isinstance(res, dict) and isinstance(ref, dict):
        if "raised" in res and ("raised" not in ref or ref["raised"].get("exc") != res["raised"].get("exc")):
            where = res["raised"].get("_where") or ["?"]
            return "raises:" + res["raised"]["exc"] + "@" + where[-1].split(":")[1] if ":" in where[-1] else "raises:" + res["raised"]["exc"]
        if "raised" in ref and "raised" not in res:
            return "no-longer-raises:" + ref["raised"]["exc"]
        if "raised" in res and "raised" in ref:
            return "other-message:" + res["raised"]["exc"]
        if "model" in res and "model" in ref:
            ks = sorted({".".join(d.split(":")[0].split(".")[:2]) for d in diff_keys(strip_private(res["model"]), strip_private(ref["model"]))})
            return "model:" + ",".join(ks)[:80]
        if "config_mutated" in res:
            return "config-mutated"
        if "value" in res and "value" in ref:
            ks = sorted({d.split(":")[0].split(".")[-1] for d in diff_keys(strip_private(res["value"]), strip_private(ref["value"]))})
            return "value:" + ",".join(ks)[:40]
    return "result"


def run(spec: dict, decider: Decider, keep_events: bool = False) -> RunResult:
    ensure_zygote()
    rr = RunResult()
    viol = None
    events = []
    try:
        if spec["mode"] == "history":
            out = fork_eval(lambda: exec_history(spec))
            creators = {}
            pre = []
            for op, o in zip(spec["ops"], out["ops"]):
                if op["op"] in ("compile", "load"):
                    creators[op["out"]] = op
                if not (op.get("fault") and op["fault"]["kind"] == "interrupt") and not (isinstance(o["res"], dict) and o["res"].get("skip") == "no-handle"):
                    pre.append(ref_descriptor(op, creators))
                if op["op"] == "drop":
                    creators.pop(op["h"], None)
            prefetch_references(pre)
            creators = {}
            interrupted_before = False
            failed_before = False
            for i, (op, o) in enumerate(zip(spec["ops"], out["ops"])):
                res = o["res"]
                events.append([i, op_label(op), digest_of(strip_private(res))])
                if op["op"] in ("compile", "load"):
                    creators[op["out"]] = op
                intr = bool(op.get("fault") and op["fault"]["kind"] == "interrupt")
                if o["mutated"] and viol is None:
                    h, diffs = sorted(o["mutated"].items())[0]
                    what = sorted({d.split(":")[0] for d in diffs})
                    viol = Violation("model-mutated", f"op {i} ({op_label(op)}) changed handle {h} created by ({op_label(creators.get(h, {'op': '?'}))}): {diffs[:3]}",
                                     f"{op['op']}:{','.join(what)[:60]}")
                no_handle = isinstance(res, dict) and res.get("skip") == "no-handle"  # its creating call failed or was interrupted here
                if not intr and not no_handle and viol is None:
                    ref = eval_reference(ref_descriptor(op, creators))
                    d = compare(res, ref)
                    if d is not None:
                        prior = "after-interrupt" if interrupted_before else ("after-failure" if failed_before else "after-calls")
                        viol = Violation("history", f"op {i} ({op_label(op)}): {d}", f"{op['op']}:{kind_of_diff(res, ref)}:{prior}")
                if isinstance(res, dict) and ("interrupted" in res):
                    interrupted_before = True
                if isinstance(res, dict) and ("raised" in res):
                    failed_before = True
                if op["op"] == "drop":
                    creators.pop(op["h"], None)
            rr.probes = dict(out["probes"])
            rr.nontrivial = len(spec["ops"]) >= 2
            rr.state_sig = digest_of([e[1] for e in events])
            rr.steps = len(spec["ops"])
            for op in spec["ops"]:
                if op.get("fault"):
                    rr.faults["fault_" + op["fault"]["kind"]] = rr.faults.get("fault_" + op["fault"]["kind"], 0) + 1
            if interrupted_before:
                rr.probes["call_after_interrupt_checked"] = 1
        else:
            out = fork_eval(lambda: exec_threads(spec, decider), timeout=150)
            rr.decisions = out["decisions"]
            creators = {op["out"]: op for op in spec["prefix"] if op["op"] in ("compile", "load")}
            if out["abort"]:
                viol = Violation("no-progress", out["abort"], "threads")
            if out["errors"] and viol is None:
                raise HarnessError("thread task died: " + out["errors"][0][1][-1500:])
            for ti, calls in enumerate(spec["threads"]):
                local_creators = dict(creators)
                for ci, op in enumerate(calls):
                    res = out["results"][ti][ci]
                    events.append([ti, ci, op_label(op), digest_of(strip_private(res))])
                    if op["op"] == "compile":
                        local_creators[op["out"]] = op
                    if viol is None and res is not None and not (isinstance(res, dict) and res.get("skip") == "no-handle"):
                        ref = eval_reference(ref_descriptor(op, local_creators))
                        d = compare(res, ref)
                        if d is not None:
                            viol = Violation("threads", f"thread {ti} call {ci} ({op_label(op)}): {d}", f"{op['op']}:{kind_of_diff(res, ref)}")
            if out["mutated"] and viol is None:
                h, diffs = sorted(out["mutated"].items())[0]
                viol = Violation("model-mutated", f"shared handle {h} changed while threads parsed: {diffs[:3]}", "threads")
            rr.probes = dict(out["probes"])
            rr.probes["thread_runs"] = 1
            rr.nontrivial = out["switches"] >= 1
            rr.state_sig = out["site_sig"]
            rr.steps = out["steps"]
            rr.extra = {"switches": out["switches"]}
    except Violation as v:
        viol = v
    if viol is not None:
        sig = f"{PROP}:{viol.clause}:{viol.disc}"
        # a spec that is entirely about a grammar with a self-contradictory type declaration (one type name under two
        # base chains) carries that in its signature: what follows from it is the listed known finding, nothing new
        gs = {op.get("g") for seq in ([spec.get("ops", []), spec.get("prefix", [])] + list(spec.get("threads", []))) for op in seq if op.get("g")}
        if gs and gs <= CONTRADICTORY_TYPES:
            sig += "/one-type-two-bases"
        rr.violation = {"clause": viol.clause, "detail": viol.detail[:3000], "signature": sig}
    rr.events = events
    h = hashlib.sha256(json.dumps([events, rr.decisions], sort_keys=True, default=repr).encode())
    rr.digest = h.hexdigest()[:24]
    rr.probes["mode_" + spec["mode"]] = 1
    return rr


# ------------------------------------------------------------------------------- shrinking
def shrink_candidates(spec: dict):
    if spec["mode"] == "history":
        ops = spec["ops"]
        n = len(ops)
        # drop suffix after nothing (the failing op is found by the runner) ; drop single ops / halves

        def valid(new_ops):
            live = set()
            for op in new_ops:
                if "h" in op and op["h"] not in live:
                    return False
                if op["op"] in ("compile", "load"):
                    live.add(op["out"])
                if op["op"] == "drop":
                    live.discard(op["h"])
            return True

        cands = []
        if n > 2:
            cands.append(ops[: n // 2])
            cands.append(ops[n // 2:])
        for i in range(n - 1, -1, -1):
            cands.append(ops[:i] + ops[i + 1:])
        for c in cands:
            if c and valid(c):
                s = copy.deepcopy(spec)
                s["ops"] = copy.deepcopy(c)
                yield s
        for i, op in enumerate(ops):
            for key in ("fault", "cfg", "start", "settings", "name", "builder"):
                if op.get(key):
                    s = copy.deepcopy(spec)
                    if key == "settings":
                        s["ops"][i]["settings"] = {}
                    else:
                        s["ops"][i].pop(key)
                        if key == "cfg":
                            s["ops"][i].pop("cfgh", None)
                    yield s
            if op.get("sem", "none") != "none" and not op.get("fault"):
                s = copy.deepcopy(spec)
                s["ops"][i]["sem"] = "none"
                s["ops"][i].pop("semh", None)
                yield s
            if op.get("semh"):
                s = copy.deepcopy(spec)
                s["ops"][i].pop("semh")
                yield s
            if op.get("cfgh"):
                s = copy.deepcopy(spec)
                s["ops"][i].pop("cfgh")
                yield s
            if op.get("asmodel"):
                s = copy.deepcopy(spec)
                s["ops"][i]["asmodel"] = False
                yield s
    else:
        for ti in range(len(spec["threads"])):
            if len(spec["threads"]) > 2:
                s = copy.deepcopy(spec)
                del s["threads"][ti]
                if s.get("arrive"):
                    del s["arrive"][ti]
                yield s
            for ci in range(len(spec["threads"][ti])):
                if len(spec["threads"][ti]) > 1:
                    s = copy.deepcopy(spec)
                    del s["threads"][ti][ci]
                    yield s
        for i in range(len(spec["prefix"]) - 1, -1, -1):
            op = spec["prefix"][i]
            if op["op"] == "mparse":
                s = copy.deepcopy(spec)
                del s["prefix"][i]
                yield s
        if spec["knobs"]["granularity"] == "opcode":
            s = copy.deepcopy(spec)
            s["knobs"]["granularity"] = "line"
            yield s
        for ti, a in enumerate(spec.get("arrive") or []):
            if a:
                s = copy.deepcopy(spec)
                s["arrive"][ti] = 0
                yield s


def spec_size(spec: dict) -> int:
    n = len(json.dumps(spec, sort_keys=True))
    if spec["mode"] == "threads":
        n += 50 * (spec["knobs"]["granularity"] == "opcode")
    return n


EXPECTED_PROBES = ["interrupt_delivered", "foreign_exception_crossed_parse", "call_after_interrupt_checked", "switch_point_in_hot_function", "thread_runs"]

COMPONENTS = {
    "real": ["tatsu.compile / tatsu.parse / Grammar.parse / to_python_sourcecode / to_python_model / generated parser classes (exec of generated source) and everything below them",
             "all process-wide state: compiled-grammar cache, Grammar._optimized, functools caches, BoundCallable._BIND_CACHE, synthesized-class registry, JSON class registry"],
    "stub": ["nothing of TatSu; environment only: fork()ed fresh processes as the reference model, sys.settrace pre-emption + baton scheduler for caller threads, semantics objects supplied by the workload"],
}

ASSUMPTIONS = [
    "dict key order and lazily built caches are not part of a result; exception messages are compared after masking addresses",
    "pre-emption granularity is the line or the bytecode of tatsu's own frames; C-level atomicity is what the GIL build of CPython 3.12 gives",
    "results of interrupted calls themselves are not compared (only that later calls are unaffected)",
]

RULE = ("one case = (spec, schedule): history mode = 2-20 API calls (compile, tatsu.parse, model.parse, to_python_sourcecode, load+parser.parse, to_python_model, drop+gc, churn of short-lived parser objects) "
        "over ~30 grammars in 7 families x names x settings x semantics kinds x builder options (incl. caller-kept BuilderConfig / constructors objects and typedef modules) x inputs; generated as free histories, family-focused "
        "histories, pair templates and builder histories; faults: FailedSemantics / foreign exception from the k-th action call, KeyboardInterrupt/MemoryError/RecursionError at the N-th line. Every call is compared with the "
        "same call in a fresh forked process; every live model/parser and every caller-owned config object is dumped before and after every call. threads mode = 2-4 caller threads on shared models (and models they compile "
        "themselves, possibly with the same compile() call), pre-empted at line events, with staggered arrival (after N lines / at the n-th line of a named function). "
        "Non-trivial: >=2 calls (history) or >=1 context switch (threads). Distinct: distinct digests of (call labels, result digests, decisions).")


# ------------------------------------------------------------------------------- sweep: an interrupt at every line of a call
SWEEP_SCENARIOS = [
    # (creator ops, the call that is interrupted at its k-th line, calls made afterwards on the same objects)
    ([{"op": "load", "g": "choice", "name": "P", "out": "p1"}],
     {"op": "pparse", "h": "p1", "g": "choice", "text": "a", "sem": "num", "settings": {"trace": True, "colorize": False}},
     [{"op": "pparse", "h": "p1", "g": "choice", "text": "a"}, {"op": "pparse", "h": "p1", "g": "choice", "text": "42", "start": "num"}]),
    ([{"op": "load", "g": "typed", "name": "P", "out": "p1"}],
     {"op": "pparse", "h": "p1", "g": "typed", "text": "1", "asmodel": True, "start": "num"},
     [{"op": "pparse", "h": "p1", "g": "typed", "text": "1"}, {"op": "pparse", "h": "p1", "g": "typed", "text": "22", "asmodel": True}]),
    ([{"op": "compile", "g": "typed", "name": None, "asmodel": True, "sem": "none", "settings": {}, "out": "m1"}],
     {"op": "mparse", "h": "m1", "g": "typed", "text": "1", "settings": {"parseinfo": True}},
     [{"op": "mparse", "h": "m1", "g": "typed", "text": "22"}, {"op": "compile", "g": "typed", "name": None, "asmodel": True, "sem": "none", "settings": {}, "out": "m2"},
      {"op": "mparse", "h": "m2", "g": "typed", "text": "1"}]),
    ([],
     {"op": "compile", "g": "ref", "name": "A", "asmodel": False, "sem": "none", "settings": {}, "out": "m1"},
     [{"op": "compile", "g": "ref", "name": "A", "asmodel": False, "sem": "none", "settings": {}, "out": "m2"}, {"op": "mparse", "h": "m2", "g": "ref", "text": "12 ab"},
      {"op": "parse", "g": "ref", "text": "12 ab", "name": "A", "asmodel": False, "sem": "none", "settings": {}}]),
    ([],
     {"op": "parse", "g": "nums", "text": "1.0", "name": None, "asmodel": True, "sem": "none", "settings": {}},
     [{"op": "parse", "g": "nums", "text": "1", "name": None, "asmodel": True, "sem": "none", "settings": {}},
      {"op": "parse", "g": "typed_b", "text": "1", "name": None, "asmodel": True, "sem": "none", "settings": {}}]),
    ([{"op": "compile", "g": "kw", "name": None, "asmodel": False, "sem": "none", "settings": {}, "out": "m1"}],
     {"op": "mparse", "h": "m1", "g": "kw", "text": "x", "sem": "eq", "settings": {"ignorecase": True}},
     [{"op": "mparse", "h": "m1", "g": "kw", "text": "IF"}, {"op": "mparse", "h": "m1", "g": "kw", "text": "x", "sem": "tag"}]),
]


def count_lines(creators, call):
    """How many line events of tatsu frames the call executes in a fresh process (after its creators)."""
    def work():
        H = {}
        for c in creators:
            exec_op(c, H)
        root = tatsu_root()
        n = [0]

        def local(frame, event, arg):
            if event == "line":
                n[0] += 1
            return local

        def glob(frame, event, arg):
            return local if event == "call" and frame.f_code.co_filename.startswith(root) else None

        sys.settrace(glob)
        try:
            try:
                exec_op(dict(call), H)
            except BaseException:  # noqa: BLE001
                pass
        finally:
            sys.settrace(None)
        return n[0]

    return fork_eval(work)


def _sweep_task(args):
    spec, seed = args
    try:
        rr = run(spec, Decider(seed=seed))
    except HarnessError as e:
        if "timed out" not in str(e):
            raise
        # the history (or a reference) never came back: a call that does not return is a violation in its own right
        rr = RunResult()
        rr.violation = {"clause": "no-progress", "detail": f"{e}: a call of this history did not return within the time limit",
                        "signature": f"{PROP}:no-progress:call-never-returned"}
        rr.digest = digest_of(spec)
    return {"violation": rr.violation, "digest": rr.digest, "spec": spec, "seed": seed,
            "delivered": bool(rr.probes.get("interrupt_delivered"))}


def interrupt_sweep(tier, seed, procs, total):
    """The property says 'after earlier failed parses on the same model or parser object': done literally for the harshest
    failure — the call abandoned at its k-th executed line, for every k (quick: a stride) — followed by ordinary calls on
    the same objects, each compared with the same call in a fresh process."""
    import multiprocessing
    from concurrent.futures import ProcessPoolExecutor

    from . import runner

    t0 = time.time()
    ensure_zygote()
    scenarios = SWEEP_SCENARIOS if tier != "quick" else [SWEEP_SCENARIOS[(seed + i) % len(SWEEP_SCENARIOS)] for i in range(2)]
    budget = 260 if tier == "quick" else 24_000
    tasks = []
    lines = []
    for creators, call, after in scenarios:
        L = count_lines(creators, call)
        lines.append(L)
        stride = max(1, -(-L // (budget // len(scenarios))))
        first = 1 + (seed % stride)
        for k in range(first, L + 1, stride):
            for exc in (("KeyboardInterrupt",) if tier == "quick" else ("KeyboardInterrupt", "MemoryError")):
                c = dict(call)
                c["fault"] = {"kind": "interrupt", "nth": k, "exc": exc}
                tasks.append(({"property": PROP, "mode": "history", "ops": [*copy.deepcopy(creators), c, *copy.deepcopy(after)]}, seed))
    stats = {"sweep_scenarios": len(scenarios), "sweep_call_lines": lines, "sweep_runs": 0, "sweep_interrupts_delivered": 0}
    scratch = runner.make_scratch()
    try:
        ctx = multiprocessing.get_context("fork")
        with ProcessPoolExecutor(max_workers=procs, mp_context=ctx, initializer=runner._worker_init, initargs=(PROP, scratch, True)) as ex:
            for res in ex.map(_sweep_task, tasks, chunksize=4):
                stats["sweep_runs"] += 1
                stats["sweep_interrupts_delivered"] += 1 if res["delivered"] else 0
                total["runs"] += 1
                total["nontrivial"] += 1
                total["digests"].add(res["digest"])
                if res["violation"] is not None:
                    b = runner.sig_base(res["violation"]["signature"])
                    total["violation_counts"][b] += 1
                    if total["violation_counts"][b] <= 5:
                        total["violations"].append({"run": -2, "seed": res["seed"], "spec": res["spec"], "violation": res["violation"]})
    finally:
        import shutil

        shutil.rmtree(scratch, ignore_errors=True)
    stats["sweep_wall_s"] = round(time.time() - t0, 1)
    return stats


# ------------------------------------------------------------------------------- batch over 3 hash-seed families
FAMILY_HASHSEEDS = ["0", "1", "31337"]


def family_main(argv):
    """Entry of one family subprocess: python -m sim.c10_api <tier> <seed> <start> <count> <stride> <procs> <wall> <out>"""
    from . import runner

    tier, seed, first, count, stride, procs, wall, outpath = argv
    seed, first, count, stride, procs = int(seed), int(first), int(count), int(stride), int(procs)
    total = runner.run_batch(PROP, tier, seed, count, procs, float(wall), chunk=4,
                             opts={"index_map": [first, stride], "chunk_timeout": 900})
    known, new = runner.triage(PROP, total, minimise_budget=40.0, max_reports=2)
    total["digests"] = sorted(total["digests"])
    total["state_sigs"] = sorted(total["state_sigs"])
    total["probes"] = dict(total["probes"])
    total["faults"] = dict(total["faults"])
    total["extra"] = dict(total["extra"])
    total["violation_counts"] = dict(total["violation_counts"])
    total["violations"] = total["violations"][:20]
    with open(outpath, "w") as f:
        json.dump({"total": total, "known": {k: {"entry": v["entry"], "count": v["count"]} for k, v in known.items()}, "new": new,
                   "hashseed": os.environ.get("PYTHONHASHSEED")}, f, default=repr)
    return 0


def worker_refs():
    """descriptor -> digest of the reference result, for the cross-family comparison."""
    return {k: digest_of(v) for k, v in _REF_MEMO.items()}


def batch(tier, seed, cfg, procs):
    import subprocess
    import tempfile
    from collections import Counter

    from . import runner

    t0 = time.time()
    nfam = len(FAMILY_HASHSEEDS)
    per = max(1, procs // nfam)
    tmp = tempfile.mkdtemp(prefix="verif-c10-", dir="/dev/shm" if os.path.isdir("/dev/shm") else None)
    procs_list = []
    try:
        for fi, hs in enumerate(FAMILY_HASHSEEDS):
            count = (cfg["runs"] - fi + nfam - 1) // nfam
            out = os.path.join(tmp, f"fam{fi}.json")
            env = dict(os.environ, PYTHONHASHSEED=hs, VERIF_REF_DUMP=os.path.join(tmp, f"refs{fi}"))
            p = subprocess.Popen([sys.executable, "-X", "faulthandler", "-c", "import sys; from sim import c10_api; sys.exit(c10_api.family_main(sys.argv[1:]))",
                                  tier, str(seed), str(fi), str(count), str(nfam), str(per), str(cfg["wall_cap"]), out],
                                 env=env, cwd=runner.VERIF)
            procs_list.append((fi, hs, p, out))
        fams = []
        for fi, hs, p, out in procs_list:
            rc = p.wait(timeout=cfg["wall_cap"] * 3 + 1800)
            if rc != 0 or not os.path.exists(out):
                raise HarnessError(f"family {fi} (PYTHONHASHSEED={hs}) exited {rc}")
            fams.append(json.load(open(out)))
        # ---- merge
        total = {"runs": 0, "nontrivial": 0, "digests": set(), "state_sigs": set(), "probes": Counter(), "faults": Counter(), "steps": 0, "sim_ns": 0,
                 "violations": [], "samples": [], "harness_errors": [], "extra": Counter(), "planned": cfg["runs"], "stopped_early": False, "cpu_s": 0.0,
                 "wall_s": 0.0, "violation_counts": Counter()}
        known, new = {}, []
        for f in fams:
            t = f["total"]
            for k in ("runs", "nontrivial", "steps", "sim_ns", "cpu_s"):
                total[k] += t[k]
            total["digests"].update(t["digests"])
            total["state_sigs"].update(t["state_sigs"])
            total["probes"].update(t["probes"])
            total["faults"].update(t["faults"])
            total["extra"].update(t["extra"])
            total["harness_errors"].extend(t["harness_errors"])
            total["samples"].extend(t["samples"][:1])
            total["stopped_early"] = total["stopped_early"] or t["stopped_early"]
            for k, v in f["known"].items():
                known.setdefault(k, {"entry": v["entry"], "count": 0})
                known[k]["count"] += v["count"]
            for v in f["new"]:
                v["hashseed"] = f["hashseed"]
                new.append(v)
        # ---- cross-family agreement of references: the same call in fresh processes under different hash seeds
        refs = []
        for fi in range(nfam):
            merged = {}
            d = os.path.join(tmp, f"refs{fi}")
            if os.path.isdir(d):
                for fn in os.listdir(d):
                    try:
                        merged.update(json.load(open(os.path.join(d, fn))))
                    except Exception:  # noqa: BLE001
                        pass
            refs.append(merged)
        common = set(refs[0])
        for r in refs[1:]:
            common &= set(r)
        disagree = [k for k in sorted(common) if len({r[k] for r in refs}) > 1]
        for k in disagree[:3]:
            path = os.path.join(os.environ.get("VERIF_REPLAY_DIR") or os.path.join(runner.VERIF, "replays"), f"C10-hashseed-{digest_of(k)}.json")
            os.makedirs(os.path.dirname(path), exist_ok=True)
            json.dump({"property": PROP, "kind": "fresh-process results differ between PYTHONHASHSEED values", "descriptor": json.loads(k),
                       "digests": {hs: r[k] for hs, r in zip(FAMILY_HASHSEEDS, refs)}}, open(path, "w"), indent=1)
            new.append({"signature": f"{PROP}:process-dependent:hashseed", "replay": path, "detail": k[:300], "seed": seed})
        sweep_total = {"runs": 0, "nontrivial": 0, "digests": set(), "violations": [], "violation_counts": Counter(), "harness_errors": []}
        sweep_stats = interrupt_sweep(tier, seed, procs, sweep_total)
        total["runs"] += sweep_total["runs"]
        total["nontrivial"] += sweep_total["nontrivial"]
        total["digests"].update(sweep_total["digests"])
        if sweep_total["violations"]:
            k2, n2 = runner.triage(PROP, sweep_total, minimise_budget=40.0, max_reports=2)
            for k, v in k2.items():
                known.setdefault(k, {"entry": v["entry"], "count": 0})
                known[k]["count"] += v["count"]
            new.extend(n2)
            total["harness_errors"].extend(sweep_total["harness_errors"])
        total["wall_s"] = time.time() - t0
        mod = sys.modules[__name__]
        extra = {**sweep_stats, "hash_seed_families": FAMILY_HASHSEEDS, "reference_calls_evaluated": sum(len(r) for r in refs),
                 "reference_calls_compared_across_hash_seeds": len(common), "reference_disagreements": len(disagree)}
        runner.write_evidence(PROP, tier, seed, total, known, new, mod, extra=extra)
        print(f"[{PROP}] runs={total['runs']} nontrivial={total['nontrivial']} distinct={len(total['digests'])} wall={total['wall_s']:.1f}s "
              f"new={len(new)} known={len(known)} refs_compared_across_hashseeds={len(common)}", flush=True)
        return runner.finish(PROP, known, new, total)
    finally:
        import shutil

        shutil.rmtree(tmp, ignore_errors=True)
