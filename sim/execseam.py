"""Simulated executor, as_completed, manager Event for tatsu.parproc  (seam for C18).

Contract implemented (what concurrent.futures promises, nothing more):
  * submit() returns a Future at once; tasks start in FIFO order when one of `max_workers` slots is
    free; a started task completes at some later instant chosen by the schedule; completion order among
    running tasks is arbitrary.
  * as_completed(fs): snapshot set(fs) on first next(); yields every future of the snapshot exactly
    once, only after it is done, in any order among the done ones; blocks (lets simulator events fire)
    while none is done.  Futures submitted later are not in the snapshot.
  * shutdown(wait, cancel_futures), context-manager exit = shutdown(wait=True).
  * Future.result() on a future that is not done would block: in the simulator that is reported as
    `blocked` unless events can still complete it.
The function submitted (the real tatsu.parproc.task.taskproc) runs for real, in-process, at the
instant its task *starts*; with the `pickle` knob the task and the result go through pickle as they
would across a process boundary.
"""
from __future__ import annotations

import pickle
import sys
import threading
from concurrent.futures import Future

from .kernel import HarnessError, Sim, Violation


class Blocked(Exception):
    """The code under test waits for something that no enabled simulator event can produce."""


class _Kill(BaseException):
    """Unwinds a parked task body when its run is over (never seen by the code under test as an Exception)."""


class BodyThread:
    """A task body of the simulated THREAD pool that runs concurrently with the other bodies: a real thread that runs
    only while the driver waits for it, and hands control back at line events of the frames named by `relevant`
    (tatsu/parproc/task.py and the workload function), after a number of lines chosen by the scheduler.  The driver and
    the bodies are never runnable at the same time, so who runs is decided by the decision log alone."""

    def __init__(self, fn, args, kwargs, relevant):
        self.fn, self.args, self.kwargs = fn, args, kwargs
        self.relevant = relevant
        self.go = threading.Semaphore(0)
        self.back = threading.Semaphore(0)
        self.done = False
        self.out = None
        self.budget = 0
        self.kill = False
        self.blocked_on = None
        self.t = threading.Thread(target=self._main, daemon=True, name="sim-body")
        self.t.start()

    def yield_now(self):
        self.back.release()
        self.go.acquire()
        if self.kill:
            raise _Kill()

    def _main(self):
        self.go.acquire()
        _BODY.w = self
        try:
            if self.kill:
                raise _Kill()
            sys.settrace(self._trace)
            try:
                self.out = ("ok", self.fn(*self.args, **self.kwargs))
            finally:
                sys.settrace(None)
        except _Kill:
            self.out = ("exc", HarnessError("task body abandoned at the end of the run"))
        except BaseException as e:  # noqa: BLE001  what the pool puts into the future
            self.out = ("exc", e)
        self.done = True
        self.back.release()

    def _trace(self, frame, event, arg):
        if event == "call" and self.relevant(frame.f_code):
            return self._local
        return None

    def _local(self, frame, event, arg):
        if event == "line":
            self.budget -= 1
            if self.budget <= 0:
                self.back.release()
                self.go.acquire()
                if self.kill:
                    raise _Kill()
        return self._local

    def slice(self, budget: int) -> None:
        """Let the body run for `budget` relevant lines (or to its end)."""
        self.budget = budget
        self.go.release()
        if not self.back.acquire(timeout=120):
            raise HarnessError("task body never came back (real deadlock inside a simulated thread?)")

    def abandon(self) -> None:
        if not self.done:
            self.kill = True
            self.go.release()
            self.back.acquire(timeout=30)
        self.t.join(timeout=5)


_BODY = threading.local()


class CoopLock:
    """Stands in for a module-level threading.Lock of the code under test while task bodies are interleaved: a body
    that finds the lock held by a parked body hands control back to the driver instead of blocking for real."""

    def __init__(self):
        self._l = threading.Lock()

    def acquire(self, blocking=True, timeout=-1):
        while not self._l.acquire(False):
            w = getattr(_BODY, "w", None)
            if w is None or not blocking:
                if not blocking:
                    return False
                raise HarnessError("a lock of the code under test is held by a parked task body while the driver wants it")
            w.blocked_on = self  # not schedulable until the holder has let go (see ExecEnv.enabled)
            w.yield_now()
        w = getattr(_BODY, "w", None)
        if w is not None:
            w.blocked_on = None
        return True

    def release(self):
        self._l.release()

    def locked(self):
        return self._l.locked()

    def __enter__(self):
        self.acquire()
        return self

    def __exit__(self, *a):
        self.release()
        return False


class ExecEnv:
    """State shared by the simulated pool(s), as_completed and the event of one run."""

    def __init__(self, sim: Sim, *, tick_max: int, do_pickle: bool, slow_keys=(), keyof=None):
        self.sim = sim
        self.tick_max = tick_max
        self.do_pickle = do_pickle
        self.pickle_failed_keys = set()
        self.slow_keys = set(slow_keys)
        self.keyof = keyof or (lambda args: None)
        self.pools: list[SimPool] = []
        self.submitted = 0
        self.started = 0
        self.completed = 0
        self.max_inflight = 0
        self.ac_rounds = 0
        self.in_consumer_wait = False
        # thread pools: task bodies interleave at line granularity (per-run knob); `relevant(code)` names the frames
        self.concurrent_bodies = False
        self.gap_mean = 4
        self.relevant = lambda code: False
        self.bodies: list[BodyThread] = []
        self.in_worker_process = 0  # > 0 while the body of a PROCESS pool task runs (it runs in a child process)

    # -- event machinery ------------------------------------------------------------------
    def enabled(self):
        evs = []
        for p in self.pools:
            if p.pending and len(p.running) < p.max_workers:
                evs.append(("start", p, None))
            for ent in p.running:
                w = ent.get("worker")
                if w is not None and not w.done:
                    if w.blocked_on is not None and w.blocked_on.locked():
                        continue  # waits for a lock that another (parked) body holds
                    evs.append(("step", p, ent))
                else:
                    evs.append(("complete", p, ent))
        fast = [e for e in evs if not (e[0] in ("complete", "step") and e[2]["key"] in self.slow_keys)]
        return fast or evs

    def fire_one(self, evs) -> None:
        kind, pool, ent = evs[self.sim.choose("ev", len(evs))] if len(evs) > 1 else evs[0]
        self.sim.step()
        self.in_consumer_wait = True  # seam calls made by the task body itself do not pass time
        try:
            if kind == "start":
                pool._start_head()
            elif kind == "step":
                pool._step(ent)
            else:
                pool._complete(ent)
        finally:
            self.in_consumer_wait = False

    def tick(self, where: str) -> None:
        """Let 0..tick_max simulator events happen (time passes at a seam call)."""
        self.sim.step()  # every seam call costs a step: a loop that spins on finished futures hits the step cap
        if self.tick_max <= 0 or self.in_consumer_wait:
            return
        k = self.sim.choose("evts", self.tick_max + 1)
        fired = 0
        for _ in range(k):
            evs = self.enabled()
            if not evs:
                break
            self.fire_one(evs)
            fired += 1
        if fired >= 2:
            self.sim.probe("burst>=2_events_at_one_seam")

    def abandon_bodies(self) -> None:
        for w in self.bodies:
            w.abandon()
        self.bodies.clear()

    def wait_until(self, cond, what: str) -> None:
        while not cond():
            evs = self.enabled()
            if not evs:
                raise Blocked(what)
            self.fire_one(evs)


class SimFuture(Future):
    _env: ExecEnv | None = None

    def result(self, timeout=None):
        env = self._env
        if env is not None:
            env.tick("result")
            if not self.done():
                env.sim.probe("result_waited")
                env.wait_until(self.done, "Future.result() on a future nothing can complete")
        return super().result(timeout=0)


def make_pool_class(env: ExecEnv, kind: str):
    class SimPool:
        _kind = kind

        def __init__(self, max_workers=None, *args, **kwargs):
            if max_workers is None:
                raise HarnessError("SimPool needs an explicit max_workers (cpu_count is pinned by the harness)")
            if max_workers <= 0:
                raise ValueError("max_workers must be greater than 0")
            self.max_workers = max_workers
            self.pending: list = []
            self.running: list = []
            self._shutdown = False
            env.pools.append(self)
            env.sim.log("pool", kind, max_workers)

        # context manager
        def __enter__(self):
            return self

        def __exit__(self, *exc):
            self.shutdown(wait=True)
            return False

        def submit(self, fn, /, *args, **kwargs):
            if self._shutdown:
                raise RuntimeError("cannot schedule new futures after shutdown")
            f = SimFuture()
            f._env = env
            key = env.keyof(args)
            self.pending.append({"f": f, "fn": fn, "args": args, "kwargs": kwargs, "key": key})
            env.submitted += 1
            env.sim.log("submit", key)
            inflight = sum(len(p.pending) + len(p.running) for p in env.pools)
            env.max_inflight = max(env.max_inflight, inflight)
            env.tick("submit")
            return f

        def _start_head(self):
            ent = self.pending.pop(0)
            f = ent["f"]
            if not f.set_running_or_notify_cancel():
                env.sim.log("skip-cancelled", ent["key"])
                return
            env.started += 1
            env.sim.log("start", ent["key"])
            fn, args, kwargs = ent["fn"], ent["args"], ent["kwargs"]
            import sys as _sys

            if kind == "thread" and env.concurrent_bodies:
                # the body runs in a thread of its own, interleaved with the other bodies line by line
                ent["worker"] = BodyThread(fn, args, kwargs, env.relevant)
                env.bodies.append(ent["worker"])
                ent["out"] = None
                self.running.append(ent)
                return

            saved_limit = _sys.getrecursionlimit()
            if getattr(env, "fresh_worker_state", False):
                # a worker process does not inherit what the parent set at run time (spawn / forkserver start methods):
                # interpreter-wide settings are the defaults of a fresh interpreter while the task runs
                _sys.setrecursionlimit(1000)
            try:
                do_pickle = env.do_pickle and kind == "process"  # threads share the objects themselves
                if do_pickle:
                    fn, args, kwargs = pickle.loads(pickle.dumps((fn, args, kwargs)))
                if kind == "process":
                    env.in_worker_process += 1
                try:
                    out = fn(*args, **kwargs)
                finally:
                    if kind == "process":
                        env.in_worker_process -= 1
                if do_pickle:
                    try:
                        out = pickle.loads(pickle.dumps(out))
                    except BaseException:
                        # what the worker sends back when its result cannot cross the process boundary
                        env.pickle_failed_keys.add(ent["key"])
                        env.sim.probe("result_could_not_be_pickled")
                        raise
                ent["out"] = ("ok", out)
            except BaseException as e:  # noqa: BLE001  what a worker process would send back
                if env.do_pickle and kind == "process":
                    try:
                        e = pickle.loads(pickle.dumps(e))
                    except Exception as pe:  # noqa: BLE001
                        env.pickle_failed_keys.add(ent["key"])
                        e = pe
                ent["out"] = ("exc", e)
            finally:
                _sys.setrecursionlimit(saved_limit)
            self.running.append(ent)

        def _step(self, ent):
            w = ent["worker"]
            gap = 1 + env.sim.choose("gap", 2 * env.gap_mean)
            w.slice(gap)
            if w.done:
                ent["out"] = w.out
                env.sim.probe("task_body_ran_interleaved")

        def _complete(self, ent):
            self.running.remove(ent)
            env.completed += 1
            env.sim.log("complete", ent["key"])
            kind_, val = ent["out"]
            if kind_ == "ok":
                ent["f"].set_result(val)
            else:
                ent["f"].set_exception(val)

        def shutdown(self, wait=True, *, cancel_futures=False):
            self._shutdown = True
            env.sim.log("shutdown", bool(wait), bool(cancel_futures))
            if cancel_futures:
                for ent in self.pending:
                    ent["f"].cancel()
                    ent["f"].set_running_or_notify_cancel()
                self.pending.clear()
            if wait:
                while self.pending or self.running:
                    evs = [e for e in env.enabled() if e[1] is self]
                    if not evs:
                        raise Blocked("shutdown(wait=True) with nothing able to run")
                    env.fire_one(evs)

    return SimPool


def make_as_completed(env: ExecEnv):
    def sim_as_completed(fs, timeout=None):
        remaining = set(fs)
        order = {f: i for i, f in enumerate(fs)}  # deterministic tie-break (never hash order)
        env.ac_rounds += 1
        if env.ac_rounds >= 2:
            env.sim.probe("second_as_completed_round")
        env.sim.log("as_completed", len(remaining))
        # the real contract of `timeout`: a deadline fixed when the iteration starts; futures that were already finished
        # at that instant are handed out regardless; after that, whenever unfinished-or-not-yet-collected futures
        # remain and the deadline has passed, TimeoutError - the time the consumer spends between two next() counts
        end_ns = None if timeout is None else env.sim.now_ns + int(timeout * 1e9)
        initial = {f for f in remaining if f.done()}
        while remaining:
            env.tick("as_completed")
            if end_ns is not None and not (initial & remaining) and env.sim.now_ns > end_ns:
                env.sim.probe("as_completed_deadline_passed")
                raise TimeoutError(f"{len(remaining)} (of {len(order)}) futures unfinished")
            done = sorted((f for f in remaining if f.done()), key=order.__getitem__)
            if not done:
                env.wait_until(lambda: any(f.done() for f in remaining), "as_completed waits for futures nothing can complete")
                done = sorted((f for f in remaining if f.done()), key=order.__getitem__)
            if len(done) >= 2:
                env.sim.probe("several_done_between_snapshots")
            f = done[env.sim.choose("pick_done", len(done))] if len(done) > 1 else done[0]
            remaining.discard(f)
            yield f

    return sim_as_completed


class SimEvent:
    """Stand-in for multiprocessing.Manager().Event() / threading.Event: picklable, shared by name."""

    _registry: dict = {}
    _env: ExecEnv | None = None

    def __init__(self, name="stop"):
        self.name = name
        SimEvent._registry.setdefault(name, False)

    def is_set(self):
        env = SimEvent._env
        if env is not None and not env.in_consumer_wait:
            env.tick("is_set")
        return SimEvent._registry.get(self.name, False)

    def set(self):
        SimEvent._registry[self.name] = True

    def clear(self):
        SimEvent._registry[self.name] = False

    def wait(self, timeout=None):
        return self.is_set()

    def __reduce__(self):
        return (SimEvent, (self.name,))

    def __eq__(self, other):
        return isinstance(other, SimEvent) and other.name == self.name

    def __hash__(self):
        return hash(("SimEvent", self.name))

    def __lt__(self, other):  # Result is an order=True dataclass
        return False


_EVENT_SERIAL = [0]


def new_event():
    """Every Event() is a new, independent event (as with the real Manager / threading)."""
    _EVENT_SERIAL[0] += 1
    return SimEvent(f"stop{_EVENT_SERIAL[0]}")


class SimManager:
    def Event(self):  # noqa: N802
        return new_event()


class SimMultiprocessing:
    """Replacement for the name `multiprocessing` in tatsu.parproc.parproc."""

    def __init__(self, cpu_count: int):
        self._cpu = cpu_count

    def Manager(self):  # noqa: N802
        return SimManager()

    def cpu_count(self):
        return self._cpu
