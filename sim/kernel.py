"""Simulation kernel: PRNG streams, decision log, event log, baton scheduler, virtual clock.

One integer decides everything.  A run is ``run(spec, decider)``; the decider is either a PRNG
(derived from the run seed) or a recorded decision list (replay).  Every draw that happens
*during* a run goes through ``Sim.choose(tag, n)`` and is appended to ``Sim.decisions``.
Logging never draws and never reads a real clock.
"""
from __future__ import annotations

import hashlib
import json
import random
import threading
import traceback
from collections import Counter


def derive(*parts) -> int:
    """Stable 64-bit integer from arbitrary (repr-able) parts.  Independent of PYTHONHASHSEED."""
    h = hashlib.sha256(repr(parts).encode("utf-8")).digest()
    return int.from_bytes(h[:8], "big")


def stream(seed: int, name: str) -> random.Random:
    return random.Random(derive(seed, name))


class HarnessError(Exception):
    """Something is wrong with the simulator itself (never reported as a violation)."""


class ReplayDiverged(HarnessError):
    pass


class SimAbort(BaseException):
    """Raised inside simulated tasks to unwind them when a run is aborted (step cap, violation)."""


class Violation(Exception):
    def __init__(self, clause: str, detail: str = "", disc: str = ""):
        super().__init__(f"{clause}: {detail}")
        self.clause = clause
        self.detail = detail
        self.disc = disc


class Decider:
    """Source of scheduling decisions: a PRNG, or a recorded list.

    mode 'prng'    : draw from the PRNG
    mode 'strict'  : replay the recorded list; tag/n mismatch or exhaustion -> ReplayDiverged
    mode 'lenient' : replay the recorded list where it fits, else choose 0 (used while minimising
                     a schedule; the run that results is re-recorded, so the final file is strict)
    """

    def __init__(self, seed: int | None = None, recorded: list | None = None, mode: str | None = None):
        self.rng = random.Random(derive(seed, "schedule")) if seed is not None else None
        self.recorded = recorded
        self.pos = 0
        self.mode = mode or ("strict" if recorded is not None else "prng")

    def choose(self, tag: str, n: int) -> int:
        if n <= 0:
            raise HarnessError(f"choose({tag!r}, {n})")
        if self.mode == "prng":
            return self.rng.randrange(n) if n > 1 else 0
        if self.pos < len(self.recorded):
            rtag, rn, rc = self.recorded[self.pos]
            self.pos += 1
            if rtag == tag and rn == n:
                return rc
            if self.mode == "strict":
                raise ReplayDiverged(
                    f"replay diverged at decision {self.pos - 1}: recorded {rtag}/{rn}, run asks {tag}/{n}"
                )
            return rc if (rtag == tag and rc < n) else 0
        if self.mode == "strict":
            raise ReplayDiverged(f"replay ran out of decisions at {self.pos} ({tag}/{n})")
        return 0


class Task:
    __slots__ = ("name", "fn", "sem", "state", "wake", "exc", "result", "thread", "index", "tb")

    def __init__(self, name, fn, index):
        self.name = name
        self.fn = fn
        self.sem = threading.Semaphore(0)
        self.state = "runnable"  # runnable | sleeping | done
        self.wake = 0
        self.exc = None
        self.tb = None
        self.result = None
        self.thread = None
        self.index = index


class Sim:
    """Decision log + event log + probes + virtual clock + baton scheduler."""

    def __init__(self, decider: Decider, step_cap: int = 200_000, keep_events: bool = True):
        self.decider = decider
        self.decisions: list = []
        self.events: list = []
        self.keep_events = keep_events
        self._hash = hashlib.sha256()
        self.probes: Counter = Counter()
        self.faults: Counter = Counter()
        self.now_ns = 0
        self.steps = 0
        self.step_cap = step_cap
        self.switches = 0
        # baton
        self.tasks: list[Task] = []
        self.current: Task | None = None
        self._main_sem = threading.Semaphore(0)
        self.aborting = False
        self.abort_reason = None
        self._tls = threading.local()
        # called in a task's own thread every time it gets the baton (per-process state of the code under test)
        self.on_resume = None

    # ---------------------------------------------------------------- decisions / logging
    def choose(self, tag: str, n: int) -> int:
        c = self.decider.choose(tag, n)
        self.decisions.append([tag, n, c])
        self._hash.update(f"D{tag}/{n}/{c};".encode())
        return c

    def flip(self, tag: str, num: int, den: int) -> bool:
        """True with probability num/den; choice 0 always means False (the boring outcome)."""
        if num <= 0:
            return False
        return self.choose(tag, den) >= den - num

    def log(self, kind: str, *fields) -> None:
        rec = (kind, *fields)
        if self.keep_events:
            self.events.append(rec)
        self._hash.update(json.dumps(rec, default=repr, ensure_ascii=True, sort_keys=True).encode())

    def digest(self) -> str:
        return self._hash.hexdigest()[:24]

    def probe(self, name: str, k: int = 1) -> None:
        self.probes[name] += k

    def fault(self, name: str, k: int = 1) -> None:
        self.faults[name] += k

    def step(self, k: int = 1) -> None:
        self.steps += k
        if self.steps > self.step_cap:
            raise Violation("no-progress", f"step cap {self.step_cap} exceeded", "step-cap")

    # ---------------------------------------------------------------- baton threads
    def spawn(self, name: str, fn) -> Task:
        t = Task(name, fn, len(self.tasks))
        self.tasks.append(t)
        return t

    def me(self) -> Task | None:
        return getattr(self._tls, "task", None)

    def _thread_main(self, task: Task):
        self._tls.task = task
        task.sem.acquire()
        try:
            if self.aborting:
                raise SimAbort()
            if self.on_resume is not None:
                self.on_resume(task)
            task.result = task.fn()
        except SimAbort:
            pass
        except BaseException as e:  # noqa: BLE001  recorded, decided by the harness
            task.exc = e
            task.tb = traceback.format_exc()
        finally:
            task.state = "done"
            self._handoff(task)

    def run_tasks(self, wall_timeout: float = 60.0) -> None:
        """Run all spawned tasks to completion under the baton.  Called from the driving thread."""
        for t in self.tasks:
            if t.thread is None:
                t.thread = threading.Thread(target=self._thread_main, args=(t,), name=t.name, daemon=True)
                t.thread.start()
        first = self._pick(None)
        if first is None:
            return
        self.current = first
        first.sem.release()
        if not self._main_sem.acquire(timeout=wall_timeout):
            import faulthandler
            import sys

            faulthandler.dump_traceback(file=sys.__stderr__)
            raise HarnessError("baton scheduler: wall-clock timeout (real deadlock inside a simulated task?)")
        for t in self.tasks:
            t.thread.join(timeout=5)

    def _candidates(self):
        return [t for t in self.tasks if t.state == "runnable"]

    def _pick(self, me: Task | None, tag="sched", p_stay=None):
        """Choose the next task to run.  Candidate 0 is `me` when it is still runnable."""
        for t in self.tasks:
            if t.state == "sleeping" and t.wake <= self.now_ns:
                t.state = "runnable"
        cands = self._candidates()
        if not cands:
            sleepers = [t for t in self.tasks if t.state == "sleeping"]
            if not sleepers:
                return None
            wake = min(t.wake for t in sleepers)
            if wake > self.now_ns:
                self.now_ns = wake
            for t in sleepers:
                if t.wake <= self.now_ns:
                    t.state = "runnable"
            cands = self._candidates()
        if me is not None and me in cands:
            cands.remove(me)
            cands.insert(0, me)
        if len(cands) == 1:
            return cands[0]
        return cands[self.choose(tag, len(cands))]

    def _handoff(self, me: Task):
        """me is done: pass the baton on, or wake the driver when everybody is done."""
        if self.aborting:
            for t in self.tasks:
                if t.state != "done":
                    self.current = t
                    t.sem.release()
                    return
            self._main_sem.release()
            return
        try:
            nxt = self._pick(None)
        except BaseException as e:  # noqa: BLE001  (ReplayDiverged inside a task thread)
            self.abort(e)
            return self._handoff(me)
        if nxt is None:
            self._main_sem.release()
            return
        self.current = nxt
        nxt.sem.release()

    def abort(self, reason) -> None:
        if not self.aborting:
            self.aborting = True
            self.abort_reason = reason

    def _switch_to(self, me: Task, nxt: Task):
        if nxt is me:
            return
        self.switches += 1
        self.current = nxt
        nxt.sem.release()
        me.sem.acquire()
        if self.aborting:
            raise SimAbort()
        if self.on_resume is not None:
            self.on_resume(me)

    def yield_point(self, tag: str = "y") -> None:
        """Possible context switch.  No-op when called outside a simulated task."""
        me = self.me()
        if me is None:
            return
        if self.aborting:
            raise SimAbort()
        self.steps += 1
        if self.steps > self.step_cap:
            self.abort(Violation("no-progress", f"step cap {self.step_cap} exceeded", "step-cap"))
            raise SimAbort()
        try:
            nxt = self._pick(me)
        except BaseException as e:  # noqa: BLE001
            self.abort(e)
            raise SimAbort() from None
        self._switch_to(me, nxt)

    def sleep_ns(self, d_ns: int) -> None:
        """Park the calling task for d_ns of simulated time."""
        me = self.me()
        if me is None:
            self.now_ns += max(0, int(d_ns))
            return
        if self.aborting:
            raise SimAbort()
        self.steps += 1
        if self.steps > self.step_cap:
            self.abort(Violation("no-progress", f"step cap {self.step_cap} exceeded", "step-cap"))
            raise SimAbort()
        me.state = "sleeping"
        me.wake = self.now_ns + max(0, int(d_ns))
        try:
            nxt = self._pick(None)
        except BaseException as e:  # noqa: BLE001
            me.state = "runnable"
            self.abort(e)
            raise SimAbort() from None
        if nxt is me:
            return
        self._switch_to(me, nxt)

    def advance_ns(self, d_ns: int) -> None:
        self.now_ns += int(d_ns)
