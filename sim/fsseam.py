"""File seam for C19: io.open replaced for paths under the run's scratch directory.

The real TextIOWrapper / BufferedReader / BufferedWriter are stacked on SimFileIO(io.FileIO), whose
readinto()/write() ask the simulator *how much* and *whether*, then call the real method on a real fd.
tell(), seek(), fstat, O_APPEND and incremental UTF-8 decoding stay the real ones.
"""
from __future__ import annotations

import errno
import io
import os

_real_open = io.open


class FsEnv:
    """Per-run policy object.  The C19 harness subclasses / fills the callbacks."""

    def __init__(self, root: str):
        self.root = os.path.realpath(root)
        self.active = True

    # called by SimFileIO; return number of bytes to accept (<= len), or raise OSError
    def on_write(self, fio, data: bytes) -> int:
        return len(data)

    def after_write(self, fio, data: bytes, done: int) -> None:
        pass

    # return max number of bytes to deliver (>=1), or raise OSError
    def on_read(self, fio, asked: int) -> int:
        return asked

    def after_read(self, fio, got: int) -> None:
        pass

    def on_open(self, fio, mode: str) -> None:
        pass

    def on_close(self, fio) -> None:
        pass


class SimFileIO(io.FileIO):
    _env: FsEnv | None = None
    _tag = None

    def readinto(self, b):
        env = self._env
        if env is None or not env.active:
            return super().readinto(b)
        mv = memoryview(b).cast("B")
        k = env.on_read(self, len(mv))
        k = max(1, min(k, len(mv))) if len(mv) else 0
        n = super().readinto(mv[:k])
        env.after_read(self, n)
        return n

    def write(self, b):
        env = self._env
        if env is None or not env.active:
            return super().write(b)
        data = bytes(b)
        k = env.on_write(self, data)
        k = max(0, min(k, len(data)))
        if k == 0 and len(data):
            raise OSError(errno.ENOSPC, "No space left on device (simulated)")
        n = super().write(data[:k])
        env.after_write(self, data, n)
        return n

    def close(self):
        env = self._env
        if env is not None and env.active and not self.closed:
            env.on_close(self)
        return super().close()


def make_open(env: FsEnv):
    def sim_open(file, mode="r", buffering=-1, encoding=None, errors=None, newline=None, closefd=True, opener=None):
        try:
            p = os.path.realpath(os.fspath(file)) if not isinstance(file, int) else None
        except TypeError:
            p = None
        if p is None or not env.active or not (p == env.root or p.startswith(env.root + os.sep)) or opener is not None:
            return _real_open(file, mode, buffering, encoding, errors, newline, closefd, opener)
        modes = set(mode)
        text = "b" not in modes
        raw_mode = ("r" if "r" in modes else "") + ("w" if "w" in modes else "") + ("a" if "a" in modes else "") + ("x" if "x" in modes else "") + ("+" if "+" in modes else "")
        raw = SimFileIO(p, raw_mode)
        raw._env = env
        env.on_open(raw, raw_mode)
        line_buffering = False
        if buffering == 1 and text:
            line_buffering = True
            buffering = -1
        wb = getattr(env, "write_buffer", None)
        if buffering < 0:
            buffering = io.DEFAULT_BUFFER_SIZE
            if wb and "r" not in modes:
                buffering = wb  # tuning knob: a small buffer stands for a record larger than the default one
        if buffering == 0:
            if text:
                raise ValueError("can't have unbuffered text I/O")
            return raw
        if "+" in modes:
            buf = io.BufferedRandom(raw, buffering)
        elif "r" in modes:
            buf = io.BufferedReader(raw, buffering)
        else:
            buf = io.BufferedWriter(raw, buffering)
        if not text:
            return buf
        t = io.TextIOWrapper(buf, encoding or "utf-8", errors, newline, line_buffering)
        if wb and "r" not in modes:
            t._CHUNK_SIZE = max(1, wb)
        t.mode = mode
        return t

    return sim_open
