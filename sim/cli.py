"""./check <C10|C18|C19> [--tier quick|thorough] [--replay FILE] [--runs N] [--procs P]
   ./check selftest-determinism <id> [--seeds N]
   ./check selftest-sensitivity <id> [--only NAME]
Exit 0: property held on everything explored (KNOWN-FINDING lines allowed); 1: VIOLATION; 2: harness error.
"""
from __future__ import annotations

import argparse
import json
import os
import sys
import time

from . import runner
from .kernel import Decider, HarnessError

TIERS = {
    "C18": {"quick": dict(runs=48_000, wall_cap=75, chunk=250), "thorough": dict(runs=3_000_000, wall_cap=900, chunk=1000)},
    "C19": {"quick": dict(runs=16_000, wall_cap=100, chunk=100), "thorough": dict(runs=1_500_000, wall_cap=1200, chunk=400)},
    "C10": {"quick": dict(runs=2_000, wall_cap=200, chunk=10), "thorough": dict(runs=60_000, wall_cap=1500, chunk=20)},
}


def cmd_check(args) -> int:
    prop = args.target
    tier = args.tier or os.environ.get("VERIF_TIER") or "quick"
    if tier not in ("quick", "thorough"):
        tier = "quick"
    seed = int(os.environ.get("VERIF_SEED", "0") or 0)
    cfg = dict(TIERS[prop][tier])
    if args.runs:
        cfg["runs"] = args.runs
    if args.wall:
        cfg["wall_cap"] = args.wall
    procs = args.procs or min(16, os.cpu_count() or 1)
    mod = runner.load(prop)
    if tier == "thorough" and not os.environ.get("VERIF_SKIP_SELFTEST"):
        # prove the simulator deterministic on this machine before believing a long batch
        from . import selftest

        rc = selftest.determinism(prop, 64)
        os.environ["VERIF_DETERMINISM_SELFTEST"] = "64 seeds x fresh interpreters x hash seeds + 16-process batch: " + ("ok" if rc == 0 else "MISMATCH")
        if rc != 0:
            print(f"HARNESS-ERROR property={prop}: determinism self-test failed; batch not run")
            return 2
    print(f"[{prop}] tier={tier} VERIF_SEED={seed} planned_runs={cfg['runs']} procs={procs} repo={runner.repo_root()}", flush=True)
    if hasattr(mod, "batch"):
        return mod.batch(tier, seed, cfg, procs)
    total = runner.run_batch(prop, tier, seed, cfg["runs"], procs, cfg["wall_cap"], chunk=cfg["chunk"])
    extra = {}
    if hasattr(mod, "post_batch"):
        extra = mod.post_batch(tier, seed, total) or {}
    direct = extra.pop("direct_violations", []) if isinstance(extra, dict) else []
    known, new = runner.triage(prop, total)
    kf = runner.known_findings(prop)
    for d in direct:
        k = runner.match_known(kf, d["signature"])
        if k is not None:
            known.setdefault(k, {"entry": kf[k], "count": 0})
            known[k]["count"] += 1
        else:
            new.append(d)
    runner.write_evidence(prop, tier, seed, total, known, new, mod, extra=extra)
    print(f"[{prop}] runs={total['runs']} nontrivial={total['nontrivial']} distinct={len(total['digests'])} "
          f"wall={total['wall_s']:.1f}s violations_raw={len(total['violations'])} new={len(new)} known={len(known)}"
          f"{' (stopped early: ' + ('enough violations' if total.get('stopped_on_violations') else 'wall cap') + ')' if total['stopped_early'] else ''}", flush=True)
    return runner.finish(prop, known, new, total)


def cmd_replay(args) -> int:
    doc = json.load(open(args.replay))
    prop = doc["property"]
    want_hs = str(doc.get("hashseed", "0"))
    if os.environ.get("PYTHONHASHSEED") != want_hs and not os.environ.get("VERIF_REEXEC"):
        env = dict(os.environ, PYTHONHASHSEED=want_hs, VERIF_REEXEC="1")
        os.execve(sys.executable, [sys.executable, "-X", "faulthandler", "-m", "sim.cli", *sys.argv[1:]], env)
    mod = runner.load(prop)

    def work():
        if hasattr(mod, "worker_init"):
            mod.worker_init(os.getcwd())
        return mod.run(doc["spec"], Decider(recorded=doc["decisions"], mode="strict"), keep_events=True)

    from .kernel import ReplayDiverged

    try:
        rr = runner.in_scratch(work)
    except ReplayDiverged as e:
        # the code under test no longer behaves as it did when the file was recorded (e.g. it was repaired):
        # follow the recorded decisions as far as they fit, then choose 0, and report what that run shows
        print(f"NOTE: {e}; continuing leniently")

        def work2():
            if hasattr(mod, "worker_init"):
                mod.worker_init(os.getcwd())
            return mod.run(doc["spec"], Decider(recorded=doc["decisions"], mode="lenient"), keep_events=True)

        rr = runner.in_scratch(work2)
    except HarnessError as e:
        print(f"HARNESS-ERROR: {e}")
        return 2
    if args.verbose:
        for ev in rr.events:
            print("  ", ev)
    if rr.violation is None:
        print(f"REPLAY property={prop}: no violation (digest {rr.digest}; recorded {doc['digest']})")
        return 0
    same = bool(doc.get("violation")) and rr.violation["signature"] == doc["violation"]["signature"] and rr.digest == doc["digest"]
    print(f"VIOLATION property={prop} replay={os.path.abspath(args.replay)}")
    print(f"  signature={rr.violation['signature']} digest={rr.digest} reproduces_recorded={same}")
    print(f"  detail={rr.violation['detail'][:1000]}")
    return 1


def main(argv=None) -> int:
    ap = argparse.ArgumentParser(prog="check")
    ap.add_argument("target")
    ap.add_argument("sub", nargs="?")
    ap.add_argument("--tier")
    ap.add_argument("--replay")
    ap.add_argument("--runs", type=int)
    ap.add_argument("--wall", type=float)
    ap.add_argument("--procs", type=int)
    ap.add_argument("--seeds", type=int, default=200)
    ap.add_argument("--only")
    ap.add_argument("--verbose", "-v", action="store_true")
    args = ap.parse_args(argv)
    t0 = time.time()
    try:
        if args.replay:
            return cmd_replay(args)
        if args.target == "selftest-determinism":
            from . import selftest

            return selftest.determinism(args.sub, args.seeds)
        if args.target == "selftest-sensitivity":
            from . import selftest

            return selftest.sensitivity(args.sub, args.only)
        if args.target in runner.MODULES:
            return cmd_check(args)
        print(f"unknown target {args.target}")
        return 2
    except HarnessError as e:
        print(f"HARNESS-ERROR: {e}")
        return 2
    except Exception as e:  # noqa: BLE001  a crash of the machinery is never exit 1 (that code means VIOLATION)
        import traceback

        traceback.print_exc()
        print(f"HARNESS-ERROR: unexpected {type(e).__name__}: {e}")
        return 2
    finally:
        print(f"[check] {time.time() - t0:.1f}s", flush=True)


if __name__ == "__main__":
    sys.exit(main())
