"""Minimisation of a failing (spec, schedule) before it is reported.

(1) greedy structural shrinking of the spec through the property module's shrink_candidates(),
    re-running each candidate under the current schedule seed and 8 alternative schedule seeds and
    keeping it only if the *same violation clause* recurs;
(2) on the smallest spec, the recorded decision list is simplified: blocks of decisions are replaced by
    0 (= stay / no event / first candidate) under a lenient replay, re-recording the run each time.
The result is verified by a strict replay.
"""
from __future__ import annotations

import time

from .kernel import Decider, derive


def _same(rr, clause):
    return rr.violation is not None and rr.violation["clause"] == clause and rr.harness_error is None


def minimise(mod, spec, seed, clause, budget_s: float = 60.0, max_runs: int = 3000, run_kwargs=None):
    run_kwargs = run_kwargs or {}
    t0 = time.time()
    runs = 0

    def attempt(s, sd):
        nonlocal runs
        runs += 1
        try:
            return mod.run(s, Decider(seed=sd), **run_kwargs)
        except Exception:  # noqa: BLE001  a candidate spec that the harness cannot run is just rejected
            return None

    best_spec, best_seed = spec, seed
    improved = True
    while improved and time.time() - t0 < budget_s and runs < max_runs:
        improved = False
        for cand in mod.shrink_candidates(best_spec):
            if mod.spec_size(cand) >= mod.spec_size(best_spec):
                continue
            seeds = [best_seed] + [derive(best_seed, "alt", i) for i in range(8)]
            ok = None
            for sd in seeds:
                rr = attempt(cand, sd)
                if rr is not None and _same(rr, clause):
                    ok = sd
                    break
                if time.time() - t0 > budget_s or runs >= max_runs:
                    break
            if ok is not None:
                best_spec, best_seed = cand, ok
                improved = True
                break
            if time.time() - t0 > budget_s or runs >= max_runs:
                break

    # schedule simplification
    rr = mod.run(best_spec, Decider(seed=best_seed), **run_kwargs)
    if not _same(rr, clause):
        return None
    decisions = [list(d) for d in rr.decisions]
    block = max(1, len(decisions) // 2)
    while block >= 1 and time.time() - t0 < budget_s * 1.5 and runs < max_runs * 2:
        i = 0
        changed = False
        while i < len(decisions):
            if any(d[2] != 0 for d in decisions[i:i + block]):
                trial = [list(d) for d in decisions]
                for d in trial[i:i + block]:
                    d[2] = 0
                runs += 1
                try:
                    r2 = mod.run(best_spec, Decider(recorded=trial, mode="lenient"), **run_kwargs)
                except Exception:  # noqa: BLE001
                    r2 = None
                if r2 is not None and _same(r2, clause):
                    decisions = [list(d) for d in r2.decisions]
                    rr = r2
                    changed = True
            i += block
            if time.time() - t0 > budget_s * 1.5:
                break
        if block == 1 and not changed:
            break
        block = max(1, block // 2) if block > 1 else (1 if changed else 0)
    # strict verification
    r3 = mod.run(best_spec, Decider(recorded=decisions, mode="strict"), **run_kwargs)
    if not _same(r3, clause) or r3.digest != rr.digest:
        return None
    return {"spec": best_spec, "seed": best_seed, "decisions": decisions, "violation": r3.violation,
            "digest": r3.digest, "minimise_runs": runs}
