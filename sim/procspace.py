"""Per-process module state for simulated processes that share one interpreter.

The simulated nodes of a run are threads of ONE Python process, so whatever the code under test keeps at module level
(an id counter, a cache, a memoised prefix) would be shared by all of them - while in a real deployment every node is a
process with its own copy, and a process made by fork() starts with a *copy of its parent's* state.  A ProcSpace gives
every simulated process its own set of the data-like globals of a list of modules and swaps them in whenever a task of
that process gets the baton (Sim.on_resume).  spawn() = the state of a freshly started interpreter; fork() = a deep copy
of the parent's state at that instant (functools caches included: the child starts with what the parent had computed).

Swapped: module globals that are plain data (None/str/bytes/numbers/tuples, dict/set/list/deque/itertools.count/...)
and functools.lru_cache wrappers.  Not swapped: functions, classes (and so class attributes), modules, anything else.
"""
from __future__ import annotations

import collections
import copy
import functools
import itertools
import sys

DATA = (dict, set, list, collections.deque, itertools.count, bytearray)
SCALAR = (type(None), str, bytes, int, float, bool, tuple, frozenset, complex)
LRU = type(functools.lru_cache(maxsize=1)(lambda: None))


def _is_slot(v) -> bool:
    return isinstance(v, SCALAR) or isinstance(v, DATA) or isinstance(v, LRU)


def _make_lru(orig, record=None):
    """A fresh cache around the same function; `record` = what the parent process had in its cache at fork()."""
    fn = getattr(orig, "_sim_fn", None) or orig.__wrapped__
    params = orig.cache_parameters()
    rec = dict(record or {})

    def inner(*a, **k):
        key = (a, tuple(sorted(k.items()))) if k else a
        try:
            if key in rec:
                return rec[key]
        except TypeError:
            return fn(*a, **k)
        r = fn(*a, **k)
        rec[key] = r
        return r

    functools.update_wrapper(inner, fn)
    w = functools.lru_cache(maxsize=params["maxsize"], typed=params["typed"])(inner)
    w._sim_fn = fn
    w._sim_rec = rec
    return w


class ProcSpace:
    def __init__(self, module_names):
        self.dicts = [sys.modules[m].__dict__ for m in module_names if m in sys.modules]
        self.pristine = self._capture()
        self.names = [set(t) for t in self.pristine]
        self.sizes = [len(d) for d in self.dicts]
        self.tables: dict = {}
        self.installed = None

    # -- reading / writing the live module dicts
    def _capture(self):
        out = []
        for d in self.dicts:
            out.append({k: v for k, v in list(d.items()) if not k.startswith("__") and _is_slot(v)})
        return out

    def _capture_fast(self):
        """Like _capture, looking only at names known to be slots unless a module gained or lost a name."""
        out = []
        for i, d in enumerate(self.dicts):
            if len(d) != self.sizes[i]:
                t = {k: v for k, v in list(d.items()) if not k.startswith("__") and _is_slot(v)}
                self.names[i] |= set(t)
                self.sizes[i] = len(d)
            else:
                t = {}
                for k in self.names[i]:
                    if k in d:
                        v = d[k]
                        if _is_slot(v):
                            t[k] = v
            out.append(t)
        return out

    def _install(self, tables):
        for i, (d, t) in enumerate(zip(self.dicts, tables)):
            for k in self.names[i]:
                if k not in t and k in d and _is_slot(d[k]):
                    del d[k]
            d.update(t)
            self.names[i] |= set(t)
            self.sizes[i] = len(d)

    # -- processes
    def _clone(self, tables, fork: bool):
        memo: dict = {}
        lru_memo: dict = {}
        out = []
        for t in tables:
            new = {}
            for k, v in t.items():
                if isinstance(v, LRU):
                    w = lru_memo.get(id(v))
                    if w is None:
                        w = lru_memo[id(v)] = _make_lru(v, getattr(v, "_sim_rec", None) if fork else None)
                    new[k] = w
                elif isinstance(v, DATA):
                    try:
                        new[k] = copy.deepcopy(v, memo)
                    except Exception:  # noqa: BLE001  something that cannot be copied stays shared
                        new[k] = v
                else:
                    new[k] = v
            out.append(new)
        return out

    def spawn(self, proc):
        self.tables[proc] = self._clone(self.pristine, fork=False)

    def fork(self, parent, child):
        """The child gets a copy of the parent's state as of now; called from the child's task."""
        if self.installed == parent:
            self.tables[parent] = self._capture_fast()
        self.tables[child] = self._clone(self.tables[parent], fork=True)
        if self.installed == child:
            self._install(self.tables[child])

    def switch(self, proc):
        if proc == self.installed or proc not in self.tables:
            return
        if self.installed is not None:
            self.tables[self.installed] = self._capture_fast()
        self._install(self.tables[proc])
        self.installed = proc

    def restore(self):
        """Put the state found at construction back (end of the run)."""
        self._install(self.pristine)
        self.installed = None
