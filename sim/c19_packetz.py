"""C19 — the packet queue is lossless, exactly-once, in order.

Real code: tatsu.packetz (PacketzQueue.send/receive/receive_async, pack/unpack, compact, escape),
tatsu.util.{asjson,fromjson,tty,misc.new_id}, and the real TextIOWrapper/Buffered*/FileIO on a real
file in a tmpfs scratch directory.  Stubs: how much / whether each raw read and write transfers
(sim.fsseam.SimFileIO), the monotonic clock, the event-loop selector.
"""
from __future__ import annotations

import asyncio
import copy
import errno
import hashlib
import io
import json
import os
import random
import re
import selectors
import sys
from contextlib import contextmanager

from . import fsseam
from .procspace import ProcSpace
from .kernel import Decider, HarnessError, Sim, SimAbort, Violation, derive

PROP = "C19"
# spellings of the one queue file: plain, Path object, relative, through '..' after a real directory, through '..' after a
# symlinked directory whose target lives elsewhere (the OS takes '..' from the target, not from the text), through a symlink
PATHFORMS = ["str", "str", "str", "Path", "relative", "dotdot", "dotdot-symlink", "via-symlink"]
POLL_NS = 10_000_000  # receive_async sleeps 0.01 s between polls


# ------------------------------------------------------------------------------- payload generation
PLAIN = "abcdefghijklmnopqrstuvwxyz ABC_-.,;"
ENC = ["~", "~", "~~", "0", "1", "5", "9", "12", '"', "\\", "\\\\", "{", "}", ":", ",", "@", "[", "]", "\n", "\t", " ",
       "é", "€", "😀", " ", "\x00", "\x7f", "e", "x1b", "u001b", "n", "hash", "data", "id", "#"]
# lone surrogates (what a file name decoded with surrogateescape contains); never a high one directly before a low one,
# which JSON itself reads back as one astral character
SURR = ["\udc80", "\udcff", "\ud800", "x\udfffy", "\udc80\udc81"]
ESCY = ["\\e", "\x1b", "\\x1b", "\x1b[0m", "x\\e[1m", "~a1~", "~a4~", "~14~", "~ 5~", "~~a1~~", '"@":', '"__class__":', "\\u001b"]


def gen_string(rng: random.Random, tricky: float) -> str:
    r = rng.random()
    if r > tricky:
        n = rng.choice([0, 1, 3, 8, 20])
        return "".join(rng.choice(PLAIN) for _ in range(n))
    parts = []
    for _ in range(rng.choice([1, 2, 3, 5, 8])):
        k = rng.random()
        if k < 0.3:
            parts.append(rng.choice(ENC))
        elif k < 0.5:
            parts.append(rng.choice(ENC + list(PLAIN)) * rng.choice([4, 5, 6, 11, 40]))  # runs >= 4
        elif k < 0.62:
            parts.append(rng.choice(ESCY))
        elif k < 0.65:
            parts.append(rng.choice(SURR) + "|")
        elif k < 0.8:
            parts.append("".join(rng.choice(PLAIN) for _ in range(rng.choice([1, 2, 5]))))
        else:
            parts.append(rng.choice(["é", "€", "😀", "日本", "ñ"]) * rng.choice([1, 2, 3, 7]))
    return "".join(parts)


def gen_value(rng: random.Random, tricky: float, depth: int = 0):
    r = rng.random()
    if depth == 0 and rng.random() < 0.0015:
        # larger than the reader's 256 KiB buffer (and not compressible): a document, a base64 blob, a long CJK text
        return "".join(rng.choice(PLAIN) + rng.choice("0123456789") for _ in range(rng.choice([135_000, 150_000])))
    if depth == 0 and rng.random() < 0.01:
        # larger than the default I/O buffer (and not compressible by the run-length layer)
        return "".join(rng.choice(PLAIN) + rng.choice("0123456789") for _ in range(rng.choice([4200, 5000, 9000])))
    if depth == 0 and rng.random() < 0.012:
        # big in another direction: a table row (many cells, stretches of blanks), a wide record, a deeply nested one
        k = rng.random()
        if k < 0.5:
            cells = []
            while len(cells) < rng.choice([64, 70, 100, 130]):
                cells += [""] * rng.choice([1, 2, 3, 4, 6]) if rng.random() < 0.3 else [rng.choice(["x", "col", "0", "~", "a b", gen_string(rng, tricky)[:12]])]
            if rng.random() < 0.2:
                cells[rng.randrange(len(cells))] = rng.choice([0, None, ["x"]])
            return cells
        if k < 0.8:
            return {f"{rng.choice(['k', 'col', ''])}{i}": rng.choice(["", "", "v", i, None, gen_string(rng, tricky)[:8]]) for i in range(rng.choice([64, 150, 400]))}
        v = gen_string(rng, tricky)[:10]
        for i in range(rng.choice([30, 60, 120])):
            v = [v] if (i % 2 or rng.random() < 0.3) else {"n": v}
        return v
    if depth >= 3 or r < 0.45:
        return gen_string(rng, tricky)
    if r < 0.55:
        return rng.choice([0, 1, -1, 7, 123456789, 1.5, -0.25, True, False, None, 1.0, 0.0, -0.0, 5e-324, 1.7976931348623157e308, 0.1 + 0.2, 2**53 + 1, -(2**53) - 1, 2**63, -(2**63) - 1, 10**30, 1e22, 1e-7, 123456789.125])
    if r < 0.78:
        return [gen_value(rng, tricky, depth + 1) for _ in range(rng.choice([0, 1, 2, 3]))]
    d = {}
    for _ in range(rng.choice([0, 1, 2, 3])):
        key = rng.choice(["a", "b", "k", "id", "to", "data", "hash", "s", "~", "@@", "@", "1", "", "é", "~a1~", "class", "_x", "__x__"])
        kk = rng.random()
        if kk < 0.12:
            key = gen_string(rng, max(tricky, 0.5))[:14]  # keys are strings too: everything a value may contain
        elif kk < 0.22:
            # keys that END like one of the encoding's own markers, or contain the quote that ends a key on the wire
            key = rng.choice(['say "__class__', '"__class__', 'x"@', '"@', '@"', '":', '"@":', "a\\", '\\"@', "__class__ ", " __class__", "@@@", "~9a~", "\\e[", "f{", "x__class__", '{"@":1}', "\n", "\u2028"])
        d[key] = gen_value(rng, tricky, depth + 1)
    return d


KNOWN_TRIGGERS = [
    ("style-prefix", lambda rng: rng.choice(["f{x}", "f{", "\\e[31mred\\e[0m", "\\e["])),
    ("class-key", lambda rng: {"__class__": rng.choice(["X", "Packet", "", "Result"]), "v": 1}),
]


def classify_payload(v) -> str:
    """Payload class used in round-trip signatures (computed from the value, not from free text)."""
    cls = set()

    def walk(x):
        if isinstance(x, str):
            if x.startswith(("f{", "\\e[")):
                cls.add("style-prefix")
            if re.search(r"~[^~]\d+~", x):
                cls.add("rle-marker")
            if "\\e" in x or "\\x1b" in x:
                cls.add("backslash-e")
        elif isinstance(x, dict):
            for k, w in x.items():
                if k == "__class__":
                    cls.add("class-key")
                if k == "@":
                    cls.add("at-key")
                walk(k)
                walk(w)
        elif isinstance(x, list):
            for w in x:
                walk(w)

    walk(v)
    for name in ("class-key", "style-prefix", "at-key", "backslash-e", "rle-marker"):
        if name in cls:
            return name
    return "other"


# ------------------------------------------------------------------------------- spec generation
def gen_spec(seed: int, config: str | None = None) -> dict:
    rng = random.Random(derive(seed, "spec"))
    bug = random.Random(derive(seed, "buggify"))
    if config is None:
        config = rng.choices(["fault-free", "clock-only", "faults"], [0.2, 0.1, 0.7])[0]
    tricky = rng.choice([0.0, 0.2, 0.5, 0.9])
    n_w = rng.choice([1, 1, 2, 2, 3])
    n_r = rng.choice([1, 1, 2, 3])
    n_sends = rng.choice([1, 2, 3, 4, 6, 8, 12])
    nodes = []
    serial = 0
    sends_by_node = {}
    for i in range(n_w):
        nodes.append({"name": f"w{i}", "role": "writer", "script": [], "pathform": rng.choice(PATHFORMS)})
    both = rng.random() < 0.2
    for i in range(n_r):
        mode = rng.choice(["iter", "iter", "batch", "async"])
        role = "both" if (both and i == 0 and mode != "async") else "reader"
        nodes.append({"name": f"r{i}", "role": role, "mode": mode, "script": [], "pathform": rng.choice(PATHFORMS)})
        if mode == "async" and rng.random() < 0.25:
            nodes[-1]["consumers"] = 2
        if mode == "async" and rng.random() < 0.5:
            # the long-running poller: ONE receive_async() stays alive while the writers write and for three poll
            # intervals after the last send completed (no fresh generator for the final drain)
            nodes[-1]["final"] = "continuous"
    senders = [n for n in nodes if n["role"] in ("writer", "both")]
    trig_left = 1 if rng.random() < 0.02 else 0
    # in-process mode: all nodes are threads of ONE process (one pid, one set of module globals), pre-empted between
    # any two lines of the library, and payloads of different sends share sub-containers by identity (a common META dict)
    inproc = rng.random() < 0.12
    shared_vals = []
    if inproc:
        n_sends = min(n_sends, 6)
        for _ in range(rng.choice([1, 1, 2])):
            shared_vals.append(rng.choice([
                {"host": gen_string(rng, tricky), "tags": {"env": "prod", "n": [1, 2, [3]]}},
                [gen_string(rng, tricky), {"k": [gen_string(rng, tricky)]}, [[0]]],
                {"a": {"b": {"c": [gen_string(rng, tricky), 1.5, None]}}, "l": list(range(rng.choice([3, 12])))},
            ]))
    for _ in range(n_sends):
        node = rng.choice(senders)
        data_v = gen_value(rng, tricky)
        if inproc:
            if len(json.dumps(data_v)) > 1500:
                data_v = gen_string(rng, tricky)[:200]
            if rng.random() < 0.7:
                sv = rng.choice(shared_vals)
                data_v = rng.choice([lambda: {"meta": sv, "x": data_v}, lambda: [sv, data_v], lambda: sv, lambda: {"m": [sv, sv]}])()
        if trig_left and rng.random() < 0.5:
            trig_left -= 1
            data_v = rng.choice(KNOWN_TRIGGERS)[1](rng)
        shape = rng.choice(["list", "list", "dict", "bare"])
        to = rng.choice([None, "r0", "all", gen_string(rng, tricky)])
        if shape == "bare":
            # the data is the value itself (None, a scalar, a string, a container): the serial travels in the recipient
            data = data_v if rng.random() < 0.8 else rng.choice([None, 0, "", False, [], {}])
            to = f"\u00a7{serial}\u00a7" + (to or "")  # U+00A7 is in none of the generator's alphabets
        else:
            data = [serial, data_v] if shape == "list" else {"s": serial, "v": data_v}
        if rng.random() < 0.25:
            node["script"].append({"op": "sleep", "ns": rng.choice([0, 1000, 10**6, 10**8, 2 * 10**8, 10**8 + 1, 5 * 10**6])})
        node["script"].append({"op": "send", "to": to, "data": data, "serial": serial})
        if shape != "bare" and sends_by_node.get(node["name"]) and rng.random() < 0.08:
            # a follow-up that quotes the id of an earlier packet of the same sender (request/reply correlation, threads
            # of messages): the id is only known at run time, so the runner puts it in
            node["script"][-1]["quote_prev"] = rng.choice([1, 1, 2])
        sends_by_node.setdefault(node["name"], []).append(serial)
        serial += 1
    for n in nodes:
        if n["role"] in ("reader", "both"):
            k = rng.choice([0, 1, 2, 3, 5])
            ops = []
            for _ in range(k):
                r = rng.random()
                if n.get("mode") == "async":
                    if r < 0.6:
                        ops.append({"op": "run", "ns": rng.choice([0, 10**6, POLL_NS, 3 * POLL_NS, 7 * POLL_NS + 12345])})
                    elif r < 0.8:
                        ops.append({"op": "sleep", "ns": rng.choice([1000, 10**6, 10**8])})
                    else:
                        ops.append({"op": "restart"})
                else:
                    if r < 0.45:
                        ops.append({"op": "recv"})
                    elif r < 0.55:
                        # keep the generator suspended after k packets; other receives run before it is resumed
                        ops.append({"op": "recv", "pause": rng.choice([0, 1, 1, 2])})
                        if rng.random() < 0.8:
                            ops.append({"op": "recv"})
                        ops.append({"op": "resume"})
                    elif r < 0.63:
                        ops.append({"op": "recv", "abandon": rng.choice([0, 1, 2])})
                    elif r < 0.67:
                        # the consumer fails while handling a packet: the exception is thrown into the generator
                        ops.append({"op": "recv", "throw_at": rng.choice([0, 1, 2]), "throw_exc": rng.choice(["ConsumerFailed", "ValueError", "TypeError", "KeyError", "UnicodeError"])})
                    elif r < 0.70:
                        # the queue object travels (pickled to a worker, copied): the same reader carries on with the copy
                        ops.append({"op": "fork", "how": rng.choice(["pickle", "copy"])})
                    elif r < 0.85:
                        ops.append({"op": "sleep", "ns": rng.choice([1000, 10**6, 10**8])})
                    else:
                        ops.append({"op": "restart"})
            if n["role"] == "both" and rng.random() < 0.4:
                # one of its sends happens from inside its own consumer loop (a reply while iterating)
                sends = [o for o in n["script"] if o["op"] == "send"]
                recvs = [o for o in ops if o["op"] == "recv" and "pause" not in o and "throw_at" not in o]
                if sends and recvs:
                    sd = sends[-1]
                    n["script"].remove(sd)
                    rng.choice(recvs)["reply"] = {"to": sd["to"], "data": sd["data"], "serial": sd["serial"], "after": rng.choice([0, 1])}
            if n["role"] == "both":
                # interleave own sends and receives
                merged = []
                a, b = list(n["script"]), ops
                while a or b:
                    if a and (not b or rng.random() < 0.5):
                        merged.append(a.pop(0))
                    else:
                        merged.append(b.pop(0))
                n["script"] = merged
            else:
                n["script"] = ops
    faults = []
    clock = {"gran_ns": 1, "cost_ns": rng.choice([37, 50, 400, 5000]), "start_ns": rng.choice([0, 10**8 - 500, 123456789012])}
    if config in ("clock-only", "faults") and rng.random() < (1.0 if config == "clock-only" else 0.3):
        clock["gran_ns"] = rng.choice([1000, 10**6, 15_600_000])
        clock["cost_ns"] = rng.choice([0, 0, 50, 400])
    knobs = {"read_chunk": None, "read_random": False, "consumer_await": bug.random() < 0.5,
             "write_buffer": bug.choice([None, None, None, 16, 64, 512])}
    if config == "faults":
        kinds = [k for k in ("short_write", "torn_write", "short_read", "read_error", "dup_append", "corrupt", "foreign_line") if bug.random() < 0.5]
        all_sends = [(nm, i, s) for nm, ss in sorted(sends_by_node.items()) for i, s in enumerate(ss)]
        if "short_write" in kinds:
            for nm, i, s in all_sends:
                if rng.random() < 0.5:
                    cuts = sorted({rng.choice(["mb", "mb", "hdr", "nl", "any", "any"]) + ":" + str(rng.randrange(1 << 16)) for _ in range(rng.choice([1, 1, 2, 3]))})
                    faults.append({"kind": "short_write", "node": nm, "send": i, "cuts": cuts})
        if "torn_write" in kinds and all_sends:
            nm, i, s = rng.choice(all_sends)
            faults.append({"kind": "torn_write", "node": nm, "send": i, "keep": rng.choice(["mb", "hdr", "nl", "any"]) + ":" + str(rng.randrange(1 << 16)),
                           "persistent": rng.random() < 0.6, "errno": rng.choice(["ENOSPC", "EIO"])})
        if "short_read" in kinds:
            knobs["read_chunk"] = rng.choice([1, 2, 3, 7, 64, 4096])
            knobs["read_random"] = rng.random() < 0.5
        if "read_error" in kinds:
            readers = [n["name"] for n in nodes if n["role"] in ("reader", "both")]
            for _ in range(rng.choice([1, 2])):
                faults.append({"kind": "read_error", "node": rng.choice(readers), "nth_read": rng.choice([0, 1, 2, 3, 5, 8]), "errno": rng.choice(["EIO", "EINTR_LIKE"])})
        if "dup_append" in kinds and all_sends:
            faults.append({"kind": "dup_append", "serial": rng.choice(all_sends)[2]})
        if "foreign_line" in kinds and all_sends:
            for _ in range(rng.choice([1, 1, 2])):
                faults.append({"kind": "foreign_line", "serial": rng.choice(all_sends)[2], "line": rng.randrange(64)})
        if "corrupt" in kinds and all_sends:
            faults.append({"kind": "corrupt", "serial": rng.choice(all_sends)[2], "at": rng.randrange(1 << 16), "xor": rng.choice([1, 2, 0x20, 0x80, 0xFF])})
    sizes = [len(json.dumps(op["data"])) for op in send_ops({"nodes": nodes})]
    big = any(z > 2000 for z in sizes)
    if big and knobs["read_chunk"]:
        knobs["read_chunk"] = max(knobs["read_chunk"], 1024 if max(sizes) < 100_000 else 65536)  # byte-at-a-time reads of a 20 KB record only burn the step budget
    if knobs["read_chunk"] and any(n.get("final") == "continuous" for n in nodes):
        # a poller that lives as long as the writers do polls hundreds of times: with 1-3 byte reads an implementation
        # that re-reads the file on every poll (slower, but it delivers the same) would exhaust the step budget
        knobs["read_chunk"] = max(knobs["read_chunk"], 16)
    spec = {"property": PROP, "config": config, "nodes": nodes, "faults": faults, "clock": clock, "knobs": knobs}
    if inproc:
        spec["inproc"] = {"mean_gap": bug.choice([2, 5, 20, 100])}
    # process creation by fork(): a node's process is a copy of another node's process taken after that one has done k
    # of its operations - module-level state of the library (id counters, caches) and, optionally, the parent's queue
    # object come along.  Drawn from a stream of its own so that everything else about the spec stays what it was.
    # a backlog: many more packets than any batch size, burst length or "every n-th" counter a reader might have, already
    # in the file when a reader gets going (a consumer that was down for a while).  From a stream of its own.
    bk = random.Random(derive(seed, "backlog"))
    if not inproc and bk.random() < 0.04:
        total = bk.choice([64, 65, 70, 100, 128, 129, 200])
        w = bk.choice([n for n in nodes if n["role"] == "writer"] or senders)
        serial_next = 1 + max([op["serial"] for op in send_ops({"nodes": nodes})] or [-1])
        for _ in range(max(0, total - len(send_ops({"nodes": nodes})))):
            w["script"].append({"op": "send", "to": bk.choice([None, "r0"]), "data": [serial_next, bk.choice(["", "x", "job", 7, None])], "serial": serial_next})
            serial_next += 1
        for n in nodes:
            if n["role"] == "reader" and bk.random() < 0.75:
                n["script"].insert(0, {"op": "await_writers"})
                if n.get("mode") == "async" and bk.random() < 0.7:
                    # taken up again in several short stretches, each ended by cancelling the consumer task
                    n["script"][1:1] = [{"op": "run", "ns": bk.choice([0, 0, 1000, 10**6])} for _ in range(bk.choice([1, 2, 3]))]
        spec["backlog"] = total
        knobs["read_chunk"] = max(knobs["read_chunk"], 64) if knobs["read_chunk"] else knobs["read_chunk"]
    # a value nested hundreds of levels deep (a parse tree, a linked list written as nested pairs): whatever could be
    # packed must be unpackable.  Only the pure round trip is exercised (phase 0), with loops instead of recursion on my side.
    dp = random.Random(derive(seed, "deep"))
    if dp.random() < 0.03:
        spec["chain"] = {"kind": dp.choice(["dict", "dict", "list", "mix"]), "depth": dp.choice([200, 400, 520, 700, 900])}
    frk = random.Random(derive(seed, "fork"))
    if not inproc and len(nodes) >= 2 and frk.random() < 0.2:
        for _ in range(frk.choice([1, 1, 2])):
            ci = frk.randrange(1, len(nodes))
            pi = frk.randrange(0, ci)
            child, parent = nodes[ci], nodes[pi]
            if "fork" in child:
                continue
            n_ops = len(parent["script"])
            child["fork"] = {"from": parent["name"], "after": frk.choice([0, 1, 1, 2, 3, n_ops, frk.randint(0, n_ops)]),
                             "inherit_q": child.get("mode") != "async" and parent.get("mode") != "async" and frk.random() < 0.4}
    return spec


# ------------------------------------------------------------------------------- independent record check
_HASH_RE = re.compile(rb'^\{"hash":"([0-9a-zA-Z_]+)","data":(.*)\}$', re.S)


def line_verifies(line: bytes) -> bool:
    """Independent re-implementation of the checksum test (used only to recognise 2^-16 flukes)."""
    if not line.endswith(b"\n"):
        return False
    m = _HASH_RE.match(line[:-1])
    if not m:
        return False
    try:
        data = m.group(2).decode("utf-8")
    except UnicodeDecodeError:
        return False
    h = hashlib.blake2b(data.encode("utf-8"), digest_size=2).digest()
    return m.group(1).decode() == f"{int.from_bytes(h, 'big'):04x}"


# ------------------------------------------------------------------------------- seams
class SimClock:
    """Replacement for the name `time` in tatsu.util.misc."""

    def __init__(self, sim: Sim, clock: dict):
        self.sim = sim
        self.gran = clock["gran_ns"]
        self.cost = clock["cost_ns"]
        self.start = clock["start_ns"]
        self.reads = 0
        self.last = None
        self.equal_readings = 0

    def monotonic_ns(self):
        self.sim.yield_point("clock")
        self.sim.now_ns += self.cost
        t = (self.start + self.sim.now_ns) // self.gran * self.gran
        self.reads += 1
        if t == self.last:
            self.equal_readings += 1
        self.last = t
        self.sim.log("clock", t)
        return t

    def monotonic(self):
        return self.monotonic_ns() / 1e9

    def time(self):
        return 1_700_000_000 + (self.start + self.sim.now_ns) / 1e9

    def time_ns(self):
        return int(self.time() * 1e9)

    def __getattr__(self, name):
        raise HarnessError(f"tatsu.util.misc used time.{name}: seam not covered")


class SimOs:
    """Replacement for the name `os` in tatsu.util.misc: every simulated node is its own process."""

    def __init__(self, sim: Sim, one_process: bool = False):
        self._sim = sim
        self._one = one_process

    def getpid(self):
        if self._one:
            return 4000
        me = self._sim.me()
        return 4000 + (me.index if me is not None else 99)

    def __getattr__(self, name):
        return getattr(os, name)


class SimSelector(selectors.SelectSelector):
    sim: Sim = None

    def select(self, timeout=None):
        sim = self.sim
        if timeout is None:
            raise Violation("blocked", "event loop would wait forever (no timer, nothing ready)", "async-hang")
        if timeout <= 0:
            sim.now_ns += 20_000  # one trip round the event loop costs time too: a busy-polling consumer still gets somewhere
            sim.yield_point("loop")
        else:
            sim.sleep_ns(int(timeout * 1e9) + 1)
        return []


class SimLoop(asyncio.SelectorEventLoop):
    sim: Sim = None

    def time(self):
        return self.sim.now_ns / 1e9


class Env(fsseam.FsEnv):
    def __init__(self, root, sim: Sim, spec: dict, hist: "History"):
        super().__init__(root)
        self.sim = sim
        self.spec = spec
        self.hist = hist
        self.write_buffer = spec["knobs"].get("write_buffer")
        self.polls = {}  # node -> [simulated time, number of opens for reading at that time]
        self.pool = {}  # in-process mode: equal sub-containers of the payloads are one object
        self.reads = {}  # node -> count of raw reads
        self.wfault = {}
        self.rfault = {}
        for f in spec["faults"]:
            if f["kind"] in ("short_write", "torn_write"):
                self.wfault.setdefault((f["node"], f["send"]), []).append(f)
            elif f["kind"] == "read_error":
                self.rfault.setdefault(f["node"], []).append(f)
        self.inflight = {}  # node -> dict(serial, written)

    # ---- writes
    def _resolve(self, spec_off: str, data: bytes) -> int:
        """'kind:rand' -> byte offset in [1, len-1] of this record."""
        kind, r = spec_off.split(":")
        r = int(r)
        n = len(data)
        if n <= 1:
            return 1
        if kind == "abs":
            return max(1, min(n - 1, r))
        if kind == "nl":
            return n - 1
        if kind == "hdr":
            return 1 + r % min(n - 1, 24)
        if kind == "mb":
            inside = [i for i in range(1, n) if (data[i] & 0xC0) == 0x80]
            if inside:
                return inside[r % len(inside)]
        return 1 + r % (n - 1)

    def on_write(self, fio, data: bytes) -> int:
        sim = self.sim
        me = sim.me()
        name = me.name if me else "?"
        cur = self.hist.cur_send.get(name)
        sim.yield_point("write")
        if cur is None:
            return len(data)
        if getattr(fio, "_dead", False):
            sim.fault("write_error_persistent")
            raise OSError(errno.ENOSPC, "No space left on device (simulated, persistent)")
        st = cur
        if st["line"] is None:
            st["line"] = data
            st["start"] = os.fstat(fio.fileno()).st_size
            st["total"] = len(data)
            st["size_at_write"] = st["start"]
            if data.startswith(b"\n") and len(data) > 1:
                # the sender starts a new line first (the file ended in a fragment): the record is what follows
                st["line"] = data[1:]
                st["start"] += 1
                sim.probe("send_started_a_new_line_after_a_fragment")
            plan = []
            for f in self.wfault.get((name, st["index"]), []):
                if f["kind"] == "short_write":
                    plan += [("cut", self._resolve(c, data)) for c in f["cuts"]]
                else:
                    plan.append(("tear", self._resolve(f["keep"], data), f))
            plan.sort(key=lambda p: p[1])
            st["plan"] = plan
        done = st["written"]
        while st["plan"] and st["plan"][0][1] <= done and st["plan"][0][0] == "cut":
            st["plan"].pop(0)
        if st["plan"]:
            kind, off = st["plan"][0][0], st["plan"][0][1]
            if kind == "tear" and off <= done:
                f = st["plan"][0][2]
                st["plan"].pop(0)
                if f["persistent"]:
                    fio._dead = True
                sim.fault("torn_write")
                st["torn"] = True
                raise OSError(getattr(errno, f["errno"]), f"{f['errno']} (simulated)")
            if off - done < len(data):
                if kind == "cut":
                    st["plan"].pop(0)
                    sim.fault("short_write")
                    self._classify_cut(st["line"], off)
                return off - done
        return len(data)

    def _classify_cut(self, line: bytes, off: int):
        n = len(line)
        cls = "before-newline" if off == n - 1 else ("header" if off <= 24 else "body")
        self.sim.probe("cut_" + cls)
        if off < n and (line[off] & 0xC0) == 0x80:
            self.sim.probe("cut_inside_multibyte")

    def after_write(self, fio, data, done):
        me = self.sim.me()
        name = me.name if me else "?"
        cur = self.hist.cur_send.get(name)
        self.sim.log("write", name, len(data), done)
        if cur is not None:
            cur["written"] += done
            cur["nwrites"] = cur.get("nwrites", 0) + 1
            if cur["written"] < cur.get("total", len(cur["line"] or b"")):
                # the file is now cut short inside this record for every reader that runs
                self.hist.partial_now.add(name)
                hold = self.spec["knobs"].get("hold_cut_ns")
                if hold:
                    self.sim.sleep_ns(hold)  # the writer stalls with the record half on disk
                else:
                    self.sim.yield_point("after-cut")
            else:
                self.hist.partial_now.discard(name)

    def on_open(self, fio, mode: str) -> None:
        # a poller that opens the file again and again while simulated time stands still never gives control back
        # (an `async` consumer that does not await between polls hangs its event loop): reported after 2000 such polls
        # instead of burning the whole step budget
        if "r" not in mode:
            return
        me = self.sim.me()
        name = me.name if me else "?"
        st = self.polls.get(name)
        if st is None or st[0] != self.sim.now_ns:
            self.polls[name] = [self.sim.now_ns, 1]
            return
        st[1] += 1
        if st[1] > 2000:
            raise Violation("no-progress", f"{name} polled the queue file {st[1]} times while simulated time stood still (it never awaits / returns)", "poll-without-await")

    # ---- reads
    def on_read(self, fio, asked: int) -> int:
        sim = self.sim
        me = sim.me()
        name = me.name if me else "?"
        sim.yield_point("read")
        k = self.reads.get(name, 0)
        self.reads[name] = k + 1
        for f in self.rfault.get(name, []):
            if f["nth_read"] == k and name not in self.hist.in_final:
                sim.fault("read_error")
                self.hist.injected_read_error.add(name)
                raise OSError(errno.EIO, "Input/output error (simulated)")
        chunk = self.spec["knobs"]["read_chunk"]
        if chunk:
            if self.spec["knobs"]["read_random"] and chunk > 1:
                chunk = 1 + sim.choose("chunk", chunk)
            if chunk < asked:
                sim.fault("short_read")
            return min(asked, chunk)
        return asked

    def after_read(self, fio, got):
        me = self.sim.me()
        name = me.name if me else "?"
        self.sim.log("read", name, got)
        if got == 0 and self.hist.partial_now:
            self.sim.probe("reader_hit_eof_while_file_cut_inside_record")
        if got == 0:
            # "saw end of file" and "acts on it" are two instants: anything may be appended in between
            self.sim.yield_point("eof")


class History:
    def __init__(self):
        self.sends = {}  # serial -> record
        self.cur_send = {}  # node -> current send state
        self.partial_now = set()
        self.injected_read_error = set()
        self.in_final = set()  # nodes in their final drain: "after the last fault"
        self.incarnations = []  # list of dict(node, idx, deliveries, final, errors)
        self.seq = 0
        self.send_errors = []
        self.recv_errors = []
        self.torn_done = 0  # failed (torn) sends that have returned
        self.was_intact_at = {}  # serial -> offsets where its line stood intact just before the simulator damaged bytes

    def tick(self):
        self.seq += 1
        return self.seq


# ------------------------------------------------------------------------------- node behaviours
def _to_plain(x):
    """Delivered data as plain JSON-comparable value (SimpleNamespace etc. make it differ on purpose)."""
    return x


class ConsumerFailed(Exception):
    pass


def rng_free_bool(n: int) -> bool:
    """A choice that depends on the spec only (no PRNG draw at run time)."""
    return n % 2 == 0


def intern_value(x, pool, top=False):
    if isinstance(x, (dict, list)) and x and not top:
        k = ("d" if isinstance(x, dict) else "l") + json.dumps(x, sort_keys=True)
        if k in pool:
            return pool[k]
    if isinstance(x, dict):
        obj = {kk: intern_value(v, pool) for kk, v in x.items()}
    elif isinstance(x, list):
        obj = [intern_value(v, pool) for v in x]
    else:
        return x
    if x and not top:
        pool[k] = obj
    return obj


def make_line_tracer(sim: Sim, mean: int):
    """Pre-emption between any two lines of the library for a node that is a thread of the one simulated process."""
    root = os.path.dirname(os.path.abspath(sys.modules["tatsu"].__file__)) + os.sep
    st = {"left": 1 + sim.choose("gap", 2 * mean)}

    def local(frame, event, arg):
        if event == "line":
            st["left"] -= 1
            if st["left"] <= 0:
                st["left"] = 1 + sim.choose("gap", 2 * mean)
                sim.probe("switch_point_between_library_lines")
                sim.yield_point("line")
        return local

    def glob(frame, event, arg):
        if event == "call" and frame.f_code.co_filename.startswith(root):
            return local
        return None

    return glob


class NodeRunner:
    def __init__(self, sim, spec, node, hist, path, writers_done, env):
        self.sim = sim
        self.spec = spec
        self.node = node
        self.hist = hist
        self.path = path
        self.writers_done = writers_done
        self.env = env
        self.q = None
        self.inc = None
        self.paused = None
        self.send_index = 0
        self.sent_ids = []
        self.ops_done = 0
        self.script_over = False
        self.fork_snap = None

    # queue object / incarnation
    def new_queue(self):
        from pathlib import Path

        from tatsu.packetz.queue import PacketzQueue

        form = self.node.get("pathform", "str")
        path = self.path
        if form == "Path":
            path = Path(self.path)
        elif form == "relative":
            path = os.path.join(".", os.path.relpath(self.path, os.getcwd()))
        elif form in ("dotdot", "dotdot-symlink", "via-symlink"):
            # the file is <q>/real/<name>; <q>/real/sub is a directory; <q>/link -> real/sub ; <q>/alias -> real
            d, name = os.path.split(self.path)
            q = os.path.dirname(d)
            path = {"dotdot": os.path.join(d, "sub", "..", name), "dotdot-symlink": os.path.join(q, "link", "..", name),
                    "via-symlink": os.path.join(q, "alias", name)}[form]
            if os.path.realpath(path) != os.path.realpath(self.path):
                raise HarnessError(f"path form {form} does not name the queue file: {path}")
        self.q = PacketzQueue(path)
        self.inc = {"node": self.node["name"], "idx": len([i for i in self.hist.incarnations if i["node"] == self.node["name"]]),
                    "deliveries": [], "final": False, "born": self.hist.tick()}
        self.hist.incarnations.append(self.inc)
        self.sim.log("incarnation", self.node["name"], self.inc["idx"])

    def record(self, p):
        serial = None
        data = getattr(p, "data", None)
        try:
            m = re.match("\u00a7(\\d+)\u00a7", str(getattr(p, "to", "") or ""))
            if m:
                serial = int(m.group(1))
            elif isinstance(data, list) and data and isinstance(data[0], int):
                serial = data[0]
            elif isinstance(data, dict) and isinstance(data.get("s"), int):
                serial = data["s"]
            if serial is None:
                m = re.match("\u00a7(\\d+)\u00a7", str(getattr(p, "to", "") or ""))
                if m:
                    serial = int(m.group(1))
        except Exception:  # noqa: BLE001
            serial = None
        d = {"serial": serial, "id": getattr(p, "id", None), "to": getattr(p, "to", None), "data": copy.deepcopy(data) if isinstance(data, (list, dict)) else data,
             "seq": self.hist.tick(), "type": type(p).__name__}
        self.inc["deliveries"].append(d)
        # the consumer owns what it received and works on it in place (pops jobs, adds flags): no other reader, and no
        # later delivery, may see that
        try:
            if isinstance(data, list):
                data.append("consumed")
            elif isinstance(data, dict):
                data["consumed"] = True
            p.to = "consumed"
        except Exception:  # noqa: BLE001
            pass
        self.sim.log("deliver", self.node["name"], self.inc["idx"], serial, str(d["id"]))

    def payload(self, data):
        """What this node hands to send(): a private copy; in in-process mode equal sub-containers of different sends
        are ONE object (identity sharing is something only threads of one process can have)."""
        if not self.spec.get("inproc"):
            return copy.deepcopy(data)
        return intern_value(data, self.env.pool, top=True)

    # operations
    def do_send(self, op):
        name = self.node["name"]
        st = {"serial": op["serial"], "index": self.send_index, "line": None, "written": 0, "plan": [], "torn": False, "start": None}
        self.send_index += 1
        rec = {"serial": op["serial"], "node": name, "to": op["to"], "data": op["data"], "acked": False, "exc": None,
               "invoke": self.hist.tick(), "ret": None, "line": None, "id": None, "start": None, "torn": False, "cut": False}
        self.hist.sends[op["serial"]] = rec
        self.hist.cur_send[name] = st
        # does the file end in a fragment that a FAILED send left behind, with nobody in the middle of a write?  A record
        # sent now, in one piece, must still be a line of its own
        rec["after_fragment"] = False
        if not self.hist.partial_now and not self.env.wfault.get((name, st["index"])) and self.hist.torn_done:
            try:
                with open(self.path, "rb") as f:
                    f.seek(0, 2)
                    rec["size_at_invoke"] = f.tell()
                    if f.tell() > 0:
                        f.seek(-1, 2)
                        rec["after_fragment"] = f.read(1) != b"\n"
            except OSError:
                pass
        self.sim.log("send-invoke", name, op["serial"])
        try:
            data = self.payload(op["data"])
            if op.get("quote_prev") and self.sent_ids:
                ref = self.sent_ids[-min(op["quote_prev"], len(self.sent_ids))]
                data = {"s": op["serial"], "id": ref, "re": data} if rng_free_bool(op["serial"]) else {"s": op["serial"], "re": data, "ctx": {"id": ref}}
                rec["data"] = copy.deepcopy(data)
                self.sim.probe("packet_quotes_id_of_earlier_packet")
            p = self.q.send(to=op["to"], data=data)
            rec["acked"] = True
            rec["id"] = p.id
            self.sent_ids.append(p.id)
        except OSError as e:
            rec["exc"] = f"{type(e).__name__}:{e.errno}"
            if not st["torn"]:
                # an OSError the simulator did not inject
                self.hist.send_errors.append((op["serial"], f"{type(e).__name__}: {e}"))
        except SimAbort:
            raise
        except Exception as e:  # noqa: BLE001
            rec["exc"] = f"{type(e).__name__}"
            self.hist.send_errors.append((op["serial"], f"{type(e).__name__}: {e}"))
        finally:
            rec["ret"] = self.hist.tick()
            rec["line"] = st["line"]
            rec["start"] = st["start"]
            rec["size_at_write"] = st.get("size_at_write")
            rec["torn"] = st["torn"]
            if st["torn"]:
                self.hist.torn_done += 1
            rec["written"] = st["written"]
            rec["one_piece"] = st.get("nwrites", 0) == 1 and st["written"] == st.get("total", len(st["line"] or b""))
            self.hist.cur_send.pop(name, None)
            self.hist.partial_now.discard(name)
            self.sim.log("send-return", name, op["serial"], rec["acked"], rec["exc"])

    def do_recv(self, op, final=False):
        name = self.node["name"]
        self.sim.log("recv-invoke", name)
        self.hist.injected_read_error.discard(name)
        abandon = op.get("abandon")
        pause = op.get("pause")
        got = 0
        try:
            gen = op.get("_gen") or self.q.receive()
            keep = False
            try:
                for p in gen:
                    self.record(p)
                    got += 1
                    reply = op.get("reply")
                    if reply is not None and got > reply["after"] and not op.get("_replied"):
                        op["_replied"] = True
                        self.sim.probe("send_from_inside_consumer_loop")
                        self.do_send({"op": "send", "to": reply["to"], "data": reply["data"], "serial": reply["serial"]})
                    if op.get("throw_at") is not None and got > op["throw_at"]:
                        self.sim.probe("exception_thrown_into_generator")
                        exc_cls = {"ConsumerFailed": ConsumerFailed, "ValueError": ValueError, "TypeError": TypeError, "KeyError": KeyError,
                                   "UnicodeError": UnicodeError}[op.get("throw_exc", "ConsumerFailed")]
                        try:
                            extra = gen.throw(exc_cls("consumer failed while handling a packet"))
                        except exc_cls:
                            pass
                        except StopIteration:
                            pass
                        else:
                            # the generator swallowed the consumer's exception and handed out another packet instead
                            self.record(extra)
                            self.hist.recv_errors.append((name, "ThrownExceptionSwallowed", f"gen.throw({exc_cls.__name__}) returned a packet instead of raising"))
                        break
                    if abandon is not None and got > abandon:
                        self.sim.probe("generator_abandoned")
                        break
                    if pause is not None and got > pause:
                        # suspended, not closed: a second receive() on the same object will overlap with it
                        self.close_paused()
                        self.paused = gen
                        keep = True
                        self.sim.probe("generator_paused")
                        break
                    if self.node.get("mode") != "batch":
                        self.sim.yield_point("pkt")
            finally:
                if not keep:
                    gen.close()
        except OSError as e:
            if name in self.hist.injected_read_error and e.errno == errno.EIO:
                self.sim.probe("receive_raised_injected_eio")
            else:
                self.hist.recv_errors.append((name, type(e).__name__, str(e)[:200]))
        except SimAbort:
            raise
        except Violation:
            raise
        except Exception as e:  # noqa: BLE001
            self.hist.recv_errors.append((name, type(e).__name__, str(e)[:200]))
        reply = op.get("reply")
        if reply is not None and not op.get("_replied"):
            op["_replied"] = True
            self.do_send({"op": "send", "to": reply["to"], "data": reply["data"], "serial": reply["serial"]})
        self.sim.log("recv-return", name, got)
        return got

    def close_paused(self):
        g, self.paused = getattr(self, "paused", None), None
        if g is not None:
            g.close()

    def do_resume(self):
        g, self.paused = getattr(self, "paused", None), None
        if g is not None:
            self.sim.probe("generator_resumed_after_other_receive")
            self.do_recv({"op": "recv", "_gen": g})

    def run_async(self, ns, final=False, until_done=False):
        """Run the async consumer for `ns` of simulated time on a fresh virtual-time loop, then cancel it.
        until_done: first keep it running until every writer has finished, then for `ns` more."""
        name = self.node["name"]
        sim = self.sim
        sel = SimSelector()
        sel.sim = sim
        loop = SimLoop(selector=sel)
        loop.sim = sim
        await_between = self.spec["knobs"]["consumer_await"]
        self.hist.injected_read_error.discard(name)

        async def consume():
            async for p in self.q.receive_async():
                self.record(p)
                if await_between:
                    await asyncio.sleep(0)

        async def main():
            # one or two consumers polling the same queue object (their receive() generators overlap)
            ts = [loop.create_task(consume(), name=f"consume-{name}-{i}") for i in range(self.node.get("consumers", 1))]
            if len(ts) > 1:
                sim.probe("two_async_consumers_on_one_queue")
            if until_done:
                guard = 0
                while not self.writers_done() and not any(t.done() for t in ts):
                    await asyncio.sleep(POLL_NS / 1e9 / 2)
                    guard += 1
                    if guard > 100_000:
                        raise HarnessError("continuous consumer: writers never finish")
                if not any(t.done() for t in ts):
                    # "after the last fault": from here on the reads of this node are fault-free
                    self.hist.in_final.add(name)
                    self.inc["final"] = True
                    sim.probe("continuous_consumer_outlived_writers")
            await asyncio.sleep(ns / 1e9)
            # a consumer that ended by itself can only have ended by raising (receive_async never returns)
            ended = [t for t in ts if t.done()]
            excs = [(t.exception() or RuntimeError("receive_async ended without being cancelled")) for t in ended]
            for t in ts:
                if not t.done():
                    t.cancel()
            sim.probe("async_cancelled")
            for t in ts:
                try:
                    await t
                except asyncio.CancelledError:
                    pass
                except Exception:  # noqa: BLE001  already collected above
                    pass
            if excs:
                # report the exception the simulator did not inject, if there is one
                excs.sort(key=lambda e: isinstance(e, OSError) and getattr(e, "errno", None) == errno.EIO)
                raise excs[0]

        try:
            loop.run_until_complete(main())
        except OSError as e:
            if name in self.hist.injected_read_error and e.errno == errno.EIO:
                sim.probe("receive_raised_injected_eio")
            else:
                self.hist.recv_errors.append((name, type(e).__name__, str(e)[:200]))
        except (SimAbort, Violation):
            raise
        except Exception as e:  # noqa: BLE001
            self.hist.recv_errors.append((name, type(e).__name__, str(e)[:200]))
        finally:
            try:
                loop.run_until_complete(loop.shutdown_asyncgens())
            except (SimAbort, Violation):
                raise
            except Exception:  # noqa: BLE001
                pass
            loop.close()

    def wait_writers(self):
        guard = 0
        while not self.writers_done():
            self.sim.sleep_ns(1_000_000)
            guard += 1
            if guard > 100_000:
                raise HarnessError("wait_writers: writers never finish")

    def main(self):
        if not self.spec.get("inproc"):
            return self._main()
        sys.settrace(make_line_tracer(self.sim, self.spec["inproc"]["mean_gap"]))
        try:
            return self._main()
        finally:
            sys.settrace(None)

    def fork_from_parent(self) -> bool:
        """This node's process is made by fork() from another node's process (spec: node["fork"]): wait until the parent
        has taken the snapshot (it does so between two of its operations, which is where a program calls fork()).
        Returns True when the parent's queue object came along and is used instead of a new one."""
        fk = self.node.get("fork")
        space = getattr(self.env, "space", None)
        if not fk or space is None or self.spec.get("inproc"):
            return False
        parent = self.env.runners.get(fk["from"])
        if parent is None:
            return False
        guard = 0
        while self.fork_snap is None and guard < 20_000:
            self.sim.sleep_ns(200_000)
            guard += 1
        if self.fork_snap is None:
            raise HarnessError("fork: the parent never reached the fork point")
        q, deliveries, born = self.fork_snap
        if fk.get("inherit_q") and q is not None:
            # the queue object is duplicated with the process: the child carries on from where the parent had got to
            self.q = q
            self.inc = {"node": self.node["name"], "idx": len([i for i in self.hist.incarnations if i["node"] == self.node["name"]]),
                        "deliveries": deliveries, "final": False, "born": born}
            self.hist.incarnations.append(self.inc)
            self.sim.log("incarnation", self.node["name"], self.inc["idx"], "inherited")
            self.sim.probe("queue_object_inherited_through_fork")
            return True
        return False

    def serve_forks(self, final=False):
        """Parent side of fork(): called between two operations of this node's script."""
        space = getattr(self.env, "space", None)
        if space is None or self.spec.get("inproc"):
            return
        for c in self.env.runners.values():
            fk = c.node.get("fork")
            if fk and fk["from"] == self.node["name"] and c.fork_snap is None and (final or self.ops_done >= fk["after"]):
                space.fork(self.node["name"], c.node["name"])
                self.sim.probe("process_forked")
                if self.sent_ids or (self.inc and self.inc["deliveries"]):
                    self.sim.probe("process_forked_after_parent_handled_packets")
                self.sim.log("fork", self.node["name"], c.node["name"], self.ops_done)
                c.fork_snap = (copy.deepcopy(self.q) if self.q is not None else None,
                               list(self.inc["deliveries"]) if self.inc else [], self.inc["born"] if self.inc else self.hist.tick())

    def _main(self):
        node = self.node
        role = node["role"]
        sim = self.sim
        if not self.fork_from_parent():
            self.new_queue()
        for op in copy.deepcopy(node["script"]):
            self.serve_forks()
            sim.yield_point("op")
            self.ops_done += 1
            kind = op["op"]
            if kind == "send":
                self.do_send(op)
            elif kind == "sleep":
                sim.sleep_ns(op["ns"])
            elif kind == "recv":
                self.do_recv(op)
            elif kind == "run":
                self.run_async(op["ns"])
            elif kind == "recv_at_cut":
                guard = 0
                while not self.hist.partial_now and not self.writers_done() and guard < 100_000:
                    sim.sleep_ns(50_000)
                    guard += 1
                if self.hist.partial_now:
                    sim.probe("receive_started_while_file_cut")
                self.do_recv({"op": "recv"})
            elif kind == "await_writers":
                self.wait_writers()
                self.sim.probe("reader_started_with_backlog")
            elif kind == "fork":
                import pickle

                self.close_paused()
                self.q = pickle.loads(pickle.dumps(self.q)) if op["how"] == "pickle" else copy.copy(self.q)
                sim.probe("queue_object_" + op["how"])
            elif kind == "resume":
                self.do_resume()
            elif kind == "restart":
                sim.probe("reader_restart")
                self.close_paused()
                self.new_queue()
            else:
                raise HarnessError(f"unknown op {kind}")
        self.serve_forks(final=True)
        self.script_over = True
        if role in ("writer", "both"):
            self.done_sending = True
        if role in ("reader", "both"):
            self.finished_script = True
            if node.get("mode") == "async" and node.get("final") == "continuous":
                self.run_async(3 * POLL_NS, final=True, until_done=True)
                if self.inc["final"]:
                    return
                # the poller died of an injected read error while faults were still flowing: fall back to a fresh drain
            self.wait_writers()
            # bounded liveness: one more receive() (sync) or 3 poll intervals (async) after the last fault
            self.do_resume()
            self.inc["final"] = True
            self.hist.in_final.add(node["name"])
            before = len(self.inc["deliveries"])
            if node.get("mode") == "async":
                self.run_async(3 * POLL_NS, final=True)
            else:
                self.do_recv({"op": "recv"}, final=True)
                # a second drain must deliver nothing new and nothing twice
                n2 = self.do_recv({"op": "recv"}, final=True)
                if n2:
                    sim.probe("second_final_drain_delivered")
            if len(self.inc["deliveries"]) > before:
                sim.probe("final_drain_delivered")


FOREIGN_LINES = [b"\n", b"   \n", b"\r\n", b'{"a": 1}\n', b"null\n", b"[]\n", b'"text"\n', b"# comment\n", b'{"hash":"0000","data":{"@":"Packet"}}\n',
                 b'{"hash":"zz"}\n', b"\xef\xbb\xbf\n", b"\xff\xfe\n", b"\x00\x00\x00\n", b'{"hash":"0000","data":\n']


class Gremlin:
    """Performs the dup_append / corrupt / foreign_line faults on the real file, once their target record is complete."""

    def __init__(self, sim, spec, hist, path, writers_done):
        self.sim, self.spec, self.hist, self.path, self.writers_done = sim, spec, hist, path, writers_done
        self.todo = [f for f in spec["faults"] if f["kind"] in ("dup_append", "corrupt", "foreign_line")]
        self.done = not self.todo
        self.corrupted = {}  # serial -> (offset, verifies)
        self.dups = {}

    def main(self):
        sim = self.sim
        pending = list(self.todo)
        guard = 0
        while pending:
            progressed = False
            for f in list(pending):
                rec = self.hist.sends.get(f["serial"])
                if rec is not None and rec["ret"] is not None:
                    pending.remove(f)
                    progressed = True
                    if not rec["acked"] or rec["line"] is None:
                        continue
                    if f["kind"] == "foreign_line":
                        # something that is neither a packet nor a piece of one: another tool logged into the file, an editor
                        # added a blank line, a Windows program wrote its line ends
                        fd = os.open(self.path, os.O_WRONLY | os.O_APPEND)
                        try:
                            os.write(fd, FOREIGN_LINES[f["line"] % len(FOREIGN_LINES)])
                        finally:
                            os.close(fd)
                        sim.fault("foreign_line")
                        sim.log("gremlin-foreign", f["serial"], f["line"])
                        continue
                    if f["kind"] == "dup_append":
                        fd = os.open(self.path, os.O_WRONLY | os.O_APPEND)
                        try:
                            at = os.fstat(fd).st_size
                            os.write(fd, rec["line"])
                        finally:
                            os.close(fd)
                        self.dups.setdefault(f["serial"], []).append(at)
                        sim.fault("dup_append")
                        sim.log("gremlin-dup", f["serial"], at)
                    else:
                        line = rec["line"]
                        off = f["at"] % len(line)
                        fd = os.open(self.path, os.O_RDWR)
                        try:
                            pos = rec["start"] + off
                            b = os.pread(fd, 1, pos)
                            if len(b) == 1:
                                # where every record is intact right now, before existing bytes change: a reader may have
                                # been handed a record from a place that the damage (a flipped newline glues two
                                # records) makes unrecognisable in the final image
                                self.note_positions()
                                os.pwrite(fd, bytes([b[0] ^ f["xor"]]), pos)
                                self.corrupted[f["serial"]] = pos
                                sim.fault("corrupt_line")
                                sim.log("gremlin-corrupt", f["serial"], pos, f["xor"])
                        finally:
                            os.close(fd)
            if pending:
                if self.writers_done() and not progressed:
                    break
                sim.sleep_ns(500_000)
                guard += 1
                if guard > 100_000:
                    raise HarnessError("gremlin never finishes")
        self.done = True

    def note_positions(self):
        by_line = {}
        for s, rec in self.hist.sends.items():
            if rec["line"] is not None:
                by_line.setdefault(bytes(rec["line"]), s)
        with open(self.path, "rb") as f:
            img = f.read()
        pos = 0
        while pos < len(img):
            nl = img.find(b"\n", pos)
            if nl < 0:
                break
            s = by_line.get(img[pos:nl + 1])
            if s is not None:
                self.hist.was_intact_at.setdefault(s, set()).add(pos)
            pos = nl + 1


# ------------------------------------------------------------------------------- one run
class RunResult:
    __slots__ = ("violation", "digest", "decisions", "probes", "faults", "nontrivial", "state_sig",
                 "steps", "sim_ns", "events", "harness_error", "extra")

    def __init__(self):
        self.violation = None
        self.digest = ""
        self.decisions = []
        self.probes = {}
        self.faults = {}
        self.nontrivial = False
        self.state_sig = ""
        self.steps = 0
        self.sim_ns = 0
        self.events = []
        self.harness_error = None
        self.extra = {}


_SCRATCH = {"dir": None, "n": 0}


def worker_init(d):
    _SCRATCH["dir"] = d
    import tatsu.packetz  # noqa: F401  warm imports: no import lock may be held across a context switch
    import tatsu.packetz.queue  # noqa: F401
    import tatsu.util.misc  # noqa: F401


@contextmanager
def patched(env: Env, clock: SimClock):
    import tatsu.util.misc as misc

    import itertools

    old_open = io.open
    old_time = misc.time
    old_os = misc.os
    io.open = fsseam.make_open(env)
    misc.time = clock
    misc.os = SimOs(env.sim, one_process=bool(env.spec.get("inproc")))
    if hasattr(misc, "_id_serial"):
        misc._id_serial = itertools.count()  # process-wide id state starts fresh in every run
    try:
        yield
    finally:
        io.open = old_open
        misc.time = old_time
        misc.os = old_os
        env.active = False


def send_ops(spec):
    out = []
    for node in spec["nodes"]:
        for op in node["script"]:
            if op["op"] == "send":
                out.append(op)
            elif op.get("reply"):
                out.append(op["reply"])
    return out


def fault_kinds_left(spec):
    ks = sorted({f["kind"] for f in spec["faults"]})
    if spec["clock"]["gran_ns"] > 1:
        ks.append("coarse-clock")
    if spec["knobs"]["read_chunk"]:
        ks.append("short_read")
    return ks


def fresh_modules():
    """Module- and class-level state of the code under test must not survive from one run into the next (packet ids are
    the same in every run, so anything process-wide keyed by id would make a run depend on the runs before it and break
    replay).  Re-executing the four small modules gives every run pristine classes; what is shared *within* a run stays shared."""
    for name in ("tatsu.packetz.compact", "tatsu.packetz.escape", "tatsu.packetz.packet", "tatsu.packetz.queue"):
        mod = sys.modules.get(name)
        if mod is None:
            continue
        code = _MODULE_CODE.get(name)
        if code is None:
            with open(mod.__file__, encoding="utf-8") as f:
                code = _MODULE_CODE[name] = compile(f.read(), mod.__file__, "exec")
        exec(code, mod.__dict__)  # noqa: S102  what importlib.reload does, without recompiling the source every run


_MODULE_CODE: dict = {}
PROC_MODULES = ("tatsu.util.misc", "tatsu.packetz.compact", "tatsu.packetz.escape", "tatsu.packetz.packet", "tatsu.packetz.queue")


def run(spec: dict, decider: Decider, keep_events: bool = False) -> RunResult:
    rr = RunResult()
    fresh_modules()
    sim = Sim(decider, step_cap=400_000 if spec.get("inproc") else 100_000, keep_events=keep_events)
    root = _SCRATCH["dir"] or os.getcwd()
    _SCRATCH["n"] += 1
    qdir = os.path.join(root, "q")
    os.makedirs(os.path.join(qdir, "real", "sub"), exist_ok=True)
    for lnk, target in (("link", os.path.join("real", "sub")), ("alias", "real")):
        if not os.path.islink(os.path.join(qdir, lnk)):
            os.symlink(target, os.path.join(qdir, lnk))
    path = os.path.join(qdir, "real", "queue.pktz.jsonl")
    for stray in (os.path.join(qdir, "queue.pktz.jsonl"), os.path.join(qdir, "real", "sub", "queue.pktz.jsonl")):
        try:
            os.unlink(stray)  # a file that a wrongly resolved spelling created in an earlier run
        except FileNotFoundError:
            pass
    try:
        os.unlink(path)
    except FileNotFoundError:
        pass
    hist = History()
    env = Env(qdir, sim, spec, hist)
    clock = SimClock(sim, spec["clock"])
    runners = []

    def writers_done():
        return all(getattr(r, "done_sending", False) for r in runners if r.node["role"] in ("writer", "both")) and gremlin.done

    gremlin = Gremlin(sim, spec, hist, path, lambda: all(getattr(r, "done_sending", False) for r in runners if r.node["role"] in ("writer", "both")))
    viol = None
    # ---- phase 0: pure round trip of every packet (first sentence of C19; decided by input generation)
    rt_bad = None
    rt_fail = set()
    try:
        with patched(env, clock):
            from tatsu.packetz.packet import Packet, pack, unpack

            for op in send_ops(spec):
                if True:
                    p = Packet(to=op["to"], data=copy.deepcopy(op["data"]))
                    try:
                        q = unpack(pack(p))
                        ok = getattr(q, "to", None) == op["to"] and getattr(q, "data", None) == op["data"] and getattr(q, "id", None) == p.id
                        ok = ok and type(getattr(q, "data", None)) is type(op["data"]) and type(q).__name__ == "Packet"
                        if ok and not _same_types(getattr(q, "data", None), op["data"]):
                            ok = False
                        msg = f"unpack(pack(p)) gave to={getattr(q, 'to', None)!r} data={getattr(q, 'data', None)!r}"
                    except Exception as e:  # noqa: BLE001
                        ok = False
                        msg = f"unpack(pack(p)) raised {type(e).__name__}: {e}"
                    if not ok:
                        rt_fail.add(op["serial"])
                    if not ok and rt_bad is None:
                        cls = classify_payload([op["to"], op["data"]])
                        rt_bad = Violation("roundtrip", f"serial {op['serial']} to={op['to']!r} data={op['data']!r}: {msg}"[:600], cls)
            ch = spec.get("chain")
            if ch and rt_bad is None:
                v = "leaf"
                for i in range(ch["depth"]):
                    v = {"k": v} if ch["kind"] == "dict" or (ch["kind"] == "mix" and i % 2) else [v]
                sim.probe("deeply_nested_value")
                try:
                    wire = pack(Packet(to="deep", data=v))
                except RecursionError:
                    wire = None  # too deep to be sent at all: nothing was promised
                if wire is not None:
                    try:
                        u = unpack(wire).data
                        depth = 0
                        while isinstance(u, (dict, list)) and len(u) == 1:
                            u = u["k"] if isinstance(u, dict) and "k" in u else (u[0] if isinstance(u, list) else None)
                            depth += 1
                        if u != "leaf" or depth != ch["depth"]:
                            rt_bad = Violation("roundtrip", f"a value nested {ch['depth']} levels deep ({ch['kind']}) came back different (depth {depth}, leaf {u!r})", "deep-nesting")
                    except Exception as e:  # noqa: BLE001
                        rt_bad = Violation("roundtrip", f"a value nested {ch['depth']} levels deep ({ch['kind']}) was packed but unpack() raised {type(e).__name__}: {str(e)[:80]}", "deep-nesting")
    except Violation as v:
        viol = v
    env.active = True
    sim.now_ns = 0
    # ---- phase 1: the simulated queue
    try:
        with patched(env, clock):
            # every simulated process has its own copy of the library's module-level state (sim/procspace.py)
            space = env.space = ProcSpace(PROC_MODULES)
            proc_of = {}
            env.runners = {}
            for node in spec["nodes"]:
                r = NodeRunner(sim, spec, node, hist, path, writers_done, env)
                runners.append(r)
                env.runners[node["name"]] = r
                proc_of[node["name"]] = "P" if spec.get("inproc") else node["name"]
                if proc_of[node["name"]] not in space.tables:
                    space.spawn(proc_of[node["name"]])
                sim.spawn(node["name"], r.main)
            if gremlin.todo:
                sim.spawn("gremlin", gremlin.main)
            sim.on_resume = lambda task: space.switch(proc_of.get(task.name))
            try:
                sim.run_tasks()
            finally:
                sim.on_resume = None
                space.restore()
        if sim.abort_reason is not None:
            if isinstance(sim.abort_reason, Violation):
                raise sim.abort_reason
            raise sim.abort_reason
        for t in sim.tasks:
            if t.exc is not None:
                if isinstance(t.exc, Violation):
                    raise t.exc
                if isinstance(t.exc, HarnessError):
                    raise t.exc
                raise HarnessError(f"task {t.name} died: {t.tb}")
        check_history(spec, hist, path, gremlin, sim, rt_fail)
    except Violation as v:
        viol = v
    if viol is None and rt_bad is not None:
        viol = rt_bad
    if viol is not None:
        disc = viol.disc or "-"
        kinds = fault_kinds_left(spec)
        if viol.clause != "roundtrip":
            # a payload of a class that pack/unpack is known not to carry (known_findings.json) is still part of this
            # (minimised) spec: what follows from it is attributed to that finding, not reported as something new
            present = {classify_payload([op["to"], op["data"]]) for op in send_ops(spec)}
            for cls in ("class-key", "style-prefix"):
                if cls in present and cls not in disc:
                    disc += "/with-" + cls
        if viol.clause != "roundtrip" and kinds:
            disc += "|" + ",".join(kinds)
        rr.violation = {"clause": viol.clause, "detail": viol.detail, "signature": f"{PROP}:{viol.clause}:{disc}"}
    # measures
    final_img = b""
    try:
        with open(path, "rb") as f:
            final_img = f.read()
    except OSError:
        pass
    sim.log("disk", hashlib.sha256(final_img).hexdigest()[:16], len(final_img))
    if clock.equal_readings:
        sim.probe("equal_clock_readings", clock.equal_readings)
    sim.probe("config_" + spec["config"])
    for n in spec["nodes"]:
        if n["role"] != "writer":
            sim.probe("reader_mode_" + n.get("mode", "?"))
    rr.digest = sim.digest()
    rr.decisions = sim.decisions
    rr.probes = dict(sim.probes)
    rr.faults = dict(sim.faults)
    rr.steps = sim.steps
    rr.sim_ns = sim.now_ns
    rr.events = sim.events
    n_sends = len(hist.sends)
    rr.nontrivial = n_sends >= 1 and sim.switches >= 1 and (n_sends >= 2 or bool(sim.faults))
    tail = "clean" if (not final_img or final_img.endswith(b"\n")) else "fragment"
    rr.state_sig = f"{tail}/{len(hist.incarnations)}/{sorted(sim.faults)}/{n_sends}/{sum(len(i['deliveries']) for i in hist.incarnations)}/{sim.switches // 4}"
    rr.extra = {"sends": n_sends, "deliveries": sum(len(i["deliveries"]) for i in hist.incarnations), "switches": sim.switches}
    return rr


def _same_types(a, b) -> bool:
    if type(a) is not type(b):
        return False
    if isinstance(a, dict):
        return a.keys() == b.keys() and all(_same_types(a[k], b[k]) for k in a)
    if isinstance(a, list):
        return len(a) == len(b) and all(_same_types(x, y) for x, y in zip(a, b))
    if isinstance(a, float):
        return repr(a) == repr(b)  # -0.0 is not 0.0; every float must come back bit for bit
    return a == b


def check_history(spec, hist: History, path, gremlin: Gremlin, sim: Sim, rt_fail):
    with open(path, "rb") as f:
        img = f.read()
    # L: physically intact records in file order -> list of (offset, serial)
    by_line = {}
    for s, rec in hist.sends.items():
        if rec["line"] is not None:
            by_line.setdefault(bytes(rec["line"]), s)
    intact = []  # (offset, serial)
    pos = 0
    glued = 0
    while pos < len(img):
        nl = img.find(b"\n", pos)
        if nl < 0:
            break
        line = img[pos:nl + 1]
        s = by_line.get(line)
        if s is not None:
            intact.append((pos, s))
        else:
            glued += 1
            if line_verifies(line):
                # a damaged line whose 16-bit checksum verifies by chance: inherent in the format; not judged
                sim.probe("checksum_collisions")
                return
        pos = nl + 1
    if glued:
        sim.probe("damaged_line_in_file")
    if pos < len(img):
        sim.probe("file_ends_in_fragment")
        if (img[-1] & 0x80) and not _valid_utf8(img[pos:]):
            sim.probe("fragment_ends_inside_multibyte")
    positions = {}
    for off, s in intact:
        positions.setdefault(s, []).append(off)
    # unexpected exceptions
    if hist.send_errors:
        s, e = hist.send_errors[0]
        raise Violation("send-raises", f"send of serial {s} raised {e} (no write error was injected)", e.split("(")[0].split(":")[0])
    if hist.recv_errors:
        n, t, m = hist.recv_errors[0]
        disc = t
        if t == "CannotUnPacketError":
            # attribute it to the record(s) that unpack() cannot digest (checked directly, line by line)
            from tatsu.packetz.packet import unpack

            culprits = []
            for r in hist.sends.values():
                if r["line"] is None:
                    continue
                try:
                    unpack(bytes(r["line"]).decode("utf-8"))
                except Exception as e:  # noqa: BLE001
                    if type(e).__name__ == "CannotUnPacketError":
                        culprits.append([r["to"], r["data"]])
            disc += "/" + (classify_payload(culprits) if culprits else "no-culprit")
        raise Violation("reader-raises", f"receive on {n} raised {t}: {m}", disc)
    # acked sends must be physically complete unless the simulator damaged them
    required = set()
    for s, rec in hist.sends.items():
        if rec["acked"]:
            if s in positions:
                required.add(s)
            else:
                sim.probe("acked_record_physically_damaged")
                if not spec["faults"]:
                    raise Violation("acked-not-on-disk", f"serial {s} acknowledged but its line is not in the file", "-")
                # ... and nothing else landed in the file between the moment send() was called and its write
                if (rec.get("after_fragment") and rec.get("one_piece") and s not in gremlin.corrupted and not hist.was_intact_at.get(s)
                        and rec.get("size_at_write") is not None and rec.get("size_at_write") == rec.get("size_at_invoke")):
                    raise Violation("acked-not-on-disk", f"serial {s} was sent, in one piece and with nobody else writing, after a failed send had left a fragment at the end of the file: it is glued to that fragment and can never be received", "after-torn-write")
    for inc in hist.incarnations:
        seen = {}
        last_off = -1
        for d in inc["deliveries"]:
            s = d["serial"]
            rec = hist.sends.get(s)
            if rec is None or rec["line"] is None:
                raise Violation("garbage", f"{inc['node']}#{inc['idx']} received a packet matching no send: id={d['id']!r} to={d['to']!r} data={d['data']!r}"[:500], "unknown")
            if d["type"] != "Packet" or d["to"] != rec["to"] or d["data"] != rec["data"] or not _same_types(d["data"], rec["data"]):
                if s not in rt_fail:
                    raise Violation("content", f"{inc['node']}#{inc['idx']} serial {s}: sent to={rec['to']!r} data={rec['data']!r}; received to={d['to']!r} data={d['data']!r}"[:600],
                                    classify_payload([rec["to"], rec["data"]]))
            if rec["id"] is not None and d["id"] != rec["id"]:
                raise Violation("garbage", f"serial {s} delivered with id {d['id']!r}, sent with {rec['id']!r}", "id")
            allowed = 1 + len(gremlin.dups.get(s, []))
            seen[s] = seen.get(s, 0) + 1
            if seen[s] > allowed:
                raise Violation("duplicate", f"{inc['node']}#{inc['idx']} received serial {s} {seen[s]} times", "-")
            if s in gremlin.corrupted:
                # the simulator damaged this record on disk at some instant: a reader that had it buffered before may
                # still hand it out, later than records appended meanwhile; nothing is asserted about its position
                continue
            # where the record physically is in the final file — not where its first raw write landed: with short writes a
            # record can be completed elsewhere (another writer's identical first bytes + this writer's remainder)
            offs = list(set(positions.get(s, [])) | hist.was_intact_at.get(s, set()))
            if rec.get("one_piece") and rec["start"] is not None and rec["start"] not in offs:
                offs.append(rec["start"])  # written in one piece there, even if a neighbour's damage has since glued it to another line
            offs.sort()
            if not offs:
                continue  # nowhere in one piece: no position to compare
            nxt = [o for o in offs if o > last_off]
            if not nxt:
                raise Violation("order", f"{inc['node']}#{inc['idx']} received serial {s} (file offset {offs}) after offset {last_off}", "-")
            last_off = min(nxt)
        if inc["final"]:
            missing = sorted(required - set(seen))
            if missing:
                ids = {}
                for s2, r2 in hist.sends.items():
                    if r2["id"] is not None:
                        ids.setdefault(r2["id"], []).append(s2)
                coll = [s for s in missing if len(ids.get(hist.sends[s]["id"], [])) > 1]
                disc = "id-collision" if coll and len(coll) == len(missing) else "-"
                raise Violation("lost", f"{inc['node']}#{inc['idx']} never received serials {missing} (complete on disk, acknowledged); ids={[hist.sends[s]['id'] for s in missing]}", disc)


def _valid_utf8(b: bytes) -> bool:
    try:
        b.decode("utf-8")
        return True
    except UnicodeDecodeError:
        return False


# ------------------------------------------------------------------------------- shrinking
def shrink_candidates(spec: dict):
    nodes = spec["nodes"]
    # drop a whole node (keep >=1 sender, >=1 reader)
    for i, n in enumerate(nodes):
        rest = nodes[:i] + nodes[i + 1:]
        if any(m["role"] in ("writer", "both") for m in rest) and any(m["role"] in ("reader", "both") for m in rest):
            s = copy.deepcopy(spec)
            s["nodes"] = copy.deepcopy(rest)
            gone_serials = {op["serial"] for op in n["script"] if op["op"] == "send"}
            s["faults"] = [f for f in s["faults"] if f.get("node") != n["name"] and f.get("serial") not in gone_serials]
            yield s
    if spec.get("chain"):
        s = copy.deepcopy(spec)
        del s["chain"]
        yield s
        for dpt in (200, 400, 520, 700):
            if dpt < spec["chain"]["depth"]:
                s = copy.deepcopy(spec)
                s["chain"]["depth"] = dpt
                yield s
    # a forked process becomes an ordinary one; a fork happens at once; the queue object is not inherited
    for i, n in enumerate(nodes):
        if "fork" in n:
            s = copy.deepcopy(spec)
            del s["nodes"][i]["fork"]
            yield s
            if n["fork"].get("inherit_q"):
                s = copy.deepcopy(spec)
                s["nodes"][i]["fork"]["inherit_q"] = False
                yield s
            if n["fork"]["after"] > 0:
                s = copy.deepcopy(spec)
                s["nodes"][i]["fork"]["after"] -= 1
                yield s
    # drop faults
    for i in range(len(spec["faults"])):
        s = copy.deepcopy(spec)
        del s["faults"][i]
        yield s
    for i, f in enumerate(spec["faults"]):
        if f["kind"] == "short_write" and len(f["cuts"]) > 1:
            for j in range(len(f["cuts"])):
                s = copy.deepcopy(spec)
                del s["faults"][i]["cuts"][j]
                yield s
    # drop operations
    for ni, n in enumerate(nodes):
        for oi, op in enumerate(n["script"]):
            s = copy.deepcopy(spec)
            del s["nodes"][ni]["script"][oi]
            if op["op"] == "send":
                # re-index the send faults of this node
                idx = sum(1 for o in n["script"][:oi] if o["op"] == "send")
                nf = []
                for f in s["faults"]:
                    if f.get("serial") == op["serial"]:
                        continue
                    if f.get("node") == n["name"] and "send" in f:
                        if f["send"] == idx:
                            continue
                        if f["send"] > idx:
                            f["send"] -= 1
                    nf.append(f)
                s["faults"] = nf
                if not any(o["op"] == "send" for m in s["nodes"] for o in m["script"]):
                    continue
            yield s
    # simplify knobs / clock / modes
    if spec["knobs"]["read_chunk"]:
        s = copy.deepcopy(spec)
        s["knobs"]["read_chunk"] = None
        s["knobs"]["read_random"] = False
        yield s
    if spec["knobs"]["read_random"]:
        s = copy.deepcopy(spec)
        s["knobs"]["read_random"] = False
        yield s
    if spec["knobs"].get("write_buffer"):
        s = copy.deepcopy(spec)
        s["knobs"]["write_buffer"] = None
        yield s
    if spec["clock"]["gran_ns"] != 1:
        s = copy.deepcopy(spec)
        s["clock"]["gran_ns"] = 1
        s["clock"]["cost_ns"] = max(37, s["clock"]["cost_ns"])
        yield s
    if spec["clock"]["start_ns"]:
        s = copy.deepcopy(spec)
        s["clock"]["start_ns"] = 0
        yield s
    if spec["knobs"]["consumer_await"]:
        s = copy.deepcopy(spec)
        s["knobs"]["consumer_await"] = False
        yield s
    for ni, n in enumerate(nodes):
        if n.get("consumers", 1) > 1:
            s = copy.deepcopy(spec)
            s["nodes"][ni].pop("consumers")
            yield s
        if n.get("mode") in ("batch", "async"):
            s = copy.deepcopy(spec)
            s["nodes"][ni]["mode"] = "iter"
            s["nodes"][ni]["script"] = [({"op": "recv"} if o["op"] == "run" else o) for o in s["nodes"][ni]["script"]]
            yield s
        if n["role"] == "both":
            pass
    # simplify payloads
    for ni, n in enumerate(nodes):
        for oi, op in enumerate(n["script"]):
            if op["op"] != "send":
                continue
            if op["to"] is not None:
                m = re.match("\u00a7\\d+\u00a7", op["to"]) if isinstance(op["to"], str) else None
                if m is None:
                    s = copy.deepcopy(spec)
                    s["nodes"][ni]["script"][oi]["to"] = None
                    yield s
                elif op["to"] != m.group(0):
                    s = copy.deepcopy(spec)
                    s["nodes"][ni]["script"][oi]["to"] = m.group(0)
                    yield s
            data = op["data"]
            bare = isinstance(op["to"], str) and re.match("\u00a7\\d+\u00a7", op["to"]) is not None
            wrapped_list = not bare and isinstance(data, list) and len(data) == 2 and data[0] == op["serial"]
            wrapped_dict = not bare and isinstance(data, dict) and data.get("s") == op["serial"] and "v" in data
            inner = data if bare else (data[1] if wrapped_list else (data["v"] if wrapped_dict else None))
            for simpler in simpler_values(inner):
                s = copy.deepcopy(spec)
                if bare:
                    s["nodes"][ni]["script"][oi]["data"] = simpler
                elif wrapped_list:
                    s["nodes"][ni]["script"][oi]["data"] = [data[0], simpler]
                elif wrapped_dict:
                    s["nodes"][ni]["script"][oi]["data"] = {"s": data["s"], "v": simpler}
                else:
                    continue
                yield s
            if wrapped_dict:
                s = copy.deepcopy(spec)
                s["nodes"][ni]["script"][oi]["data"] = [data["s"], data["v"]]
                yield s
            if op.get("op") == "sleep" and op["ns"]:
                s = copy.deepcopy(spec)
                s["nodes"][ni]["script"][oi]["ns"] = 0
                yield s
    if spec["config"] != "faults" and not spec["faults"]:
        pass


def simpler_values(v):
    if isinstance(v, str):
        if v:
            yield ""
            if len(v) > 1:
                yield v[: len(v) // 2]
                yield v[len(v) // 2:]
                yield v[1:]
                yield v[:-1]
    elif isinstance(v, list):
        yield ""
        for i in range(len(v)):
            yield v[:i] + v[i + 1:]
        for i, x in enumerate(v):
            yield x
            for sx in simpler_values(x):
                yield v[:i] + [sx] + v[i + 1:]
    elif isinstance(v, dict):
        yield ""
        for k in v:
            d = dict(v)
            del d[k]
            yield d
        for k, x in v.items():
            yield x
            for sx in simpler_values(x):
                d = dict(v)
                d[k] = sx
                yield d
    elif v is not None and v != 0:
        yield 0


# ------------------------------------------------------------------------------- sweep: every byte offset of the last record
SWEEP_PAYLOADS = [
    "plain", "", "é€😀 日本", "~a1~ ~~ ~ 5~", "aaaaaaaaaaaa    bbbbbbb", "\\e \x1b \\x1b[0m", '"quoted" \\ {braces} [x]: @',
    {"@": "at", "k": ["~", "1111", None, True, 1.5]}, [[], {}, "", 0], "line\nbreak\ttab\u2028sep", {"~~": {"id": "x", "to": "y", "data": "z", "hash": "h"}},
]


def sweep_spec(payload, k, mode, clock_start=0):
    data = [1, payload]
    if mode == "async":
        wscript = [{"op": "sleep", "ns": POLL_NS // 2}, {"op": "send", "to": None, "data": [0, "first"], "serial": 0}, {"op": "send", "to": "r0", "data": data, "serial": 1}]
        rscript = [{"op": "run", "ns": 6 * POLL_NS}]
        hold = 2 * POLL_NS + 12345
    else:
        wscript = [{"op": "send", "to": None, "data": [0, "first"], "serial": 0}, {"op": "send", "to": "r0", "data": data, "serial": 1}]
        rscript = [{"op": "recv_at_cut"}, {"op": "recv"}]
        hold = 2_000_000
    faults = [] if k is None else [{"kind": "short_write", "node": "w0", "send": 1, "cuts": [f"abs:{k}"]}]
    return {"property": PROP, "config": "sweep", "nodes": [{"name": "w0", "role": "writer", "script": wscript},
                                                             {"name": "r0", "role": "reader", "mode": mode, "script": rscript}],
            "faults": faults, "clock": {"gran_ns": 1, "cost_ns": 37, "start_ns": clock_start},
            "knobs": {"read_chunk": None, "read_random": False, "consumer_await": False, "hold_cut_ns": hold}}


def _sweep_task(args):
    spec, seed = args
    rr = run(spec, Decider(seed=seed))
    return {"violation": rr.violation, "probes": rr.probes, "faults": rr.faults, "digest": rr.digest, "spec": spec, "seed": seed}


def _sweep_len(args):
    spec, seed = args
    rr = run(spec, Decider(seed=seed), keep_events=True)
    for e in rr.events:
        if e[0] == "write" and e[1] == "w0":
            last = e[2]
    return last


def post_batch(tier: str, seed: int, total: dict):
    """The quantifier of C19 names 'the queue file truncated at every byte offset of the last record': done literally,
    for a list of payloads, with a reader that receives while the record is cut at offset k and again after it is completed."""
    import multiprocessing
    import time
    from concurrent.futures import ProcessPoolExecutor

    from . import runner

    t0 = time.time()
    rng = random.Random(derive(seed, "sweep"))
    payloads = list(SWEEP_PAYLOADS[: (3 if tier == "quick" else len(SWEEP_PAYLOADS))])
    extra_n = 1 if tier == "quick" else 40
    payloads += [gen_value(rng, 0.7) for _ in range(extra_n)]
    scratch = runner.make_scratch()
    stats = {"sweep_records": 0, "sweep_runs": 0, "sweep_offsets_cut": 0, "sweep_reader_saw_cut": 0, "sweep_cut_inside_multibyte": 0}
    try:
        ctx = multiprocessing.get_context("fork")
        with ProcessPoolExecutor(max_workers=min(16, os.cpu_count() or 1), mp_context=ctx, initializer=runner._worker_init, initargs=(PROP, scratch, True)) as ex:
            lens = list(ex.map(_sweep_len, [(sweep_spec(p, None, "iter"), seed) for p in payloads]))
            tasks = []
            for p, L in zip(payloads, lens):
                if L > 1500:
                    continue
                stats["sweep_records"] += 1
                for mode in ("iter", "async") if tier != "quick" else ("iter",):
                    for k in range(1, L):
                        tasks.append((sweep_spec(p, k, mode), seed))
            for res in ex.map(_sweep_task, tasks, chunksize=16):
                stats["sweep_runs"] += 1
                stats["sweep_offsets_cut"] += 1 if res["faults"].get("short_write") else 0
                if res["probes"].get("reader_hit_eof_while_file_cut_inside_record") or res["probes"].get("receive_started_while_file_cut"):
                    stats["sweep_reader_saw_cut"] += 1
                stats["sweep_cut_inside_multibyte"] += 1 if res["probes"].get("cut_inside_multibyte") else 0
                total["runs"] += 1
                total["nontrivial"] += 1
                total["digests"].add(res["digest"])
                if res["violation"] is not None:
                    b = runner.sig_base(res["violation"]["signature"])
                    total["violation_counts"][b] += 1
                    if total["violation_counts"][b] <= 5:
                        total["violations"].append({"run": -2, "seed": res["seed"], "spec": res["spec"], "violation": res["violation"]})
    finally:
        import shutil

        shutil.rmtree(scratch, ignore_errors=True)
    stats["sweep_wall_s"] = round(time.time() - t0, 1)
    return stats


def spec_size(spec: dict) -> int:
    """Complexity measure for shrinking: JSON length plus penalties for every non-default knob."""
    n = len(json.dumps(spec, sort_keys=True, default=repr))
    k = spec["knobs"]
    n += 40 * bool(k["read_chunk"]) + 20 * bool(k["read_random"]) + 10 * bool(k["consumer_await"]) + 30 * bool(k.get("write_buffer"))
    n += 40 * (spec["clock"]["gran_ns"] != 1) + 10 * bool(spec["clock"]["start_ns"])
    for node in spec["nodes"]:
        n += {"iter": 0, "batch": 15, "async": 30}.get(node.get("mode", "iter"), 0)
        n += 10 * (node["role"] == "both") + 20 * (node.get("consumers", 1) > 1)
    return n


EXPECTED_PROBES = [
    "cut_header", "cut_body", "cut_before-newline", "cut_inside_multibyte", "reader_hit_eof_while_file_cut_inside_record",
    "generator_abandoned", "generator_paused", "generator_resumed_after_other_receive", "two_async_consumers_on_one_queue", "reader_restart", "async_cancelled", "final_drain_delivered", "damaged_line_in_file",
    "file_ends_in_fragment", "fragment_ends_inside_multibyte", "receive_raised_injected_eio", "equal_clock_readings",
    "acked_record_physically_damaged", "continuous_consumer_outlived_writers", "switch_point_between_library_lines",
    "process_forked", "process_forked_after_parent_handled_packets", "queue_object_inherited_through_fork", "reader_started_with_backlog",
]

COMPONENTS = {
    "real": ["tatsu.packetz.queue.PacketzQueue (send, receive, receive_async, writer)", "tatsu.packetz.packet (Packet, pack, unpack, hashed, unhashed, class_escape)",
             "tatsu.packetz.compact (rle_encode/rle_decode)", "tatsu.util.asjson / fromjson", "tatsu.util.tty (tty_escape/unescape)", "tatsu.util.misc (new_id, hash2str)",
             "io.TextIOWrapper / BufferedReader / BufferedWriter / FileIO on a real tmpfs file (tell, seek, O_APPEND, incremental UTF-8 decoder)", "asyncio tasks, async generators, cancellation"],
    "stub": ["how many bytes each raw read()/write() transfers and whether it fails (sim.fsseam.SimFileIO)", "time.monotonic_ns (granularity, cost per read, start value)",
             "event-loop selector and loop.time (virtual time)", "thread scheduling: one baton, next task chosen by the seeded scheduler at every seam call",
             "process boundaries: nodes are threads of one interpreter; per-process copies of the module-level data and functools caches of tatsu.util.misc / tatsu.packetz.* are swapped in at every switch (sim.procspace), fork() = deep copy of the parent's; os.getpid per node; class attributes stay shared"],
}

ASSUMPTIONS = [
    "a record is 'complete on disk' iff a newline-terminated line byte-identical to what send() handed to its first raw write is in the final file",
    "corrupt lines whose 16-bit checksum verifies by chance are not judged (counted as checksum_collisions)",
    "O_APPEND atomicity per raw write as given by the kernel (tmpfs); fsync/power loss not modelled",
]

RULE = ("one case = (spec, schedule): spec = 1-3 writer and 1-3 reader nodes (sync iterating / sync batch / async poller) with their own PacketzQueue on one file, "
        "<=12 sends with generated payloads, receive/abandon/pause+resume/throw/restart/fork/reply/cancel operations, async readers with one or two consumers and optionally ONE generator alive until the writers are done, "
        "optionally all nodes as threads of one process (line pre-emption, identity-shared payload containers), fault plan (short writes at chosen byte offsets, torn writes with ENOSPC/EIO, "
        "short reads, read errors, duplicate append, byte corruption) and clock model; schedule = which node runs next at every raw read, raw write, clock read, packet and operation boundary. "
        "Non-trivial: >=1 context switch and (>=2 sends or >=1 fault fired). Distinct: distinct SHA-256 digests of the event log (decisions, raw I/O sizes, clock readings, deliveries, final disk image).")
