"""Self-tests of the simulator: determinism (same seed => same event-log digest, in fresh interpreters,
under another PYTHONHASHSEED, at another worker count) and sensitivity (source mutants must be caught,
negative controls must stay quiet)."""
from __future__ import annotations

import json
import os
import shutil
import subprocess
import sys
import tempfile
import time

from . import runner
from .kernel import Decider, derive

VERIF = runner.VERIF


# ------------------------------------------------------------------------------- determinism
def _digests_main(prop, n, base_seed):
    mod = runner.load(prop)

    def work():
        if hasattr(mod, "worker_init"):
            mod.worker_init(os.getcwd())
        out = {}
        for r in range(n):
            seed = derive(base_seed, prop, r)
            spec = mod.gen_spec(seed)
            rr = mod.run(spec, Decider(seed=seed))
            out[r] = [rr.digest, None if rr.violation is None else rr.violation["signature"]]
        return out

    return runner.in_scratch(work)


def determinism(prop, n=200) -> int:
    if prop is None:
        print("usage: selftest-determinism <id>")
        return 2
    base_seed = int(os.environ.get("VERIF_SEED", "0") or 0)
    results = {}
    code = (
        "import sys, json, os\n"
        "from sim import selftest\n"
        f"d = selftest._digests_main({prop!r}, {n}, {base_seed})\n"
        "json.dump(d, sys.stdout)\n"
    )
    t0 = time.time()
    procs = []
    configs = [("hs0-a", "0"), ("hs0-b", "0"), ("hs12345", "12345"), ("hs987", "987")]
    mod = runner.load(prop)
    if getattr(mod, "HASHSEED_IN_SPEC", False) and not os.environ.get("VERIF_SELFTEST_ALLHS"):
        configs = [("hs0-a", "0"), ("hs0-b", "0"), ("hs0-c", "0")]
    for name, hs in configs:
        env = dict(os.environ, PYTHONHASHSEED=hs)
        p = subprocess.Popen([sys.executable, "-c", code], env=env, stdout=subprocess.PIPE, stderr=subprocess.DEVNULL, cwd=VERIF)
        procs.append((name, p))
    for name, p in procs:
        out, _ = p.communicate(timeout=3600)
        if p.returncode != 0:
            print(f"HARNESS-ERROR: determinism run {name} exited {p.returncode}")
            return 2
        results[name] = json.loads(out)
    # the same seeds through the 16-process batch runner: digests of non-trivial runs must be a subset
    ref = results[configs[0][0]]
    bad = 0
    for name, _ in configs[1:]:
        for r, v in results[name].items():
            if v != ref[r]:
                bad += 1
                if bad <= 10:
                    print(f"NONDETERMINISTIC: property={prop} run={r} {configs[0][0]}={ref[r]} {name}={v}")
    total = runner.run_batch(prop, "quick", base_seed, n, min(16, os.cpu_count() or 1), 3600, chunk=max(1, n // 32))
    allref = {v[0] for v in ref.values()}
    stray = [d for d in total["digests"] if d not in allref]
    if stray:
        inv = {}
        for name, _ in configs:
            for r, v in results[name].items():
                inv.setdefault(v[0], r)
        print("  stray digests:", stray[:5])
        bad += len(stray)
        print(f"NONDETERMINISTIC: property={prop} {len(stray)} digests from the 16-process batch do not occur in the single-process run")
    print(f"[selftest-determinism {prop}] seeds={n} configs={[c[0] for c in configs]}+batch16 mismatches={bad} wall={time.time() - t0:.1f}s")
    return 0 if bad == 0 else 2


# ------------------------------------------------------------------------------- sensitivity
# (name, relative file, old text, new text, expected: 'caught' | 'quiet')
MUTANTS = {
    "C10": [
        ("synthesize-rebases-existing-class", "tatsu/objectmodel/synth.py", "        if isinstance(found, type) and found.__bases__ == bases:\n            return found\n", "        if isinstance(found, type) and found.__bases__ == bases:\n            return found\n        if isinstance(found, type):\n            try:\n                found.__bases__ = bases  # keep ONE class per name: move it under the bases asked for now\n                return found\n            except TypeError:\n                pass\n", "caught"),
        ("cache-key-without-asmodel", "tatsu/api/api.py", "key = (name, hasha(grammar), id(semantics), asmodel, settings_key)", "key = (name, hasha(grammar), id(semantics), settings_key)", "caught"),
        ("cache-key-without-settings", "tatsu/api/api.py", "key = (name, hasha(grammar), id(semantics), asmodel, settings_key)", "key = (name, hasha(grammar), id(semantics), asmodel)", "caught"),
        ("cache-key-without-name", "tatsu/api/api.py", "key = (name, hasha(grammar), id(semantics), asmodel, settings_key)", "key = (hasha(grammar), id(semantics), asmodel, settings_key)", "caught"),
        ("synthesize-ignores-bases", "tatsu/objectmodel/synth.py", "if isinstance(found, type) and found.__bases__ == bases:", "if isinstance(found, type):", "caught"),
        ("bound-cleanup-only-on-success", "tatsu/contexts/engine.py", "        finally:\n            self._initialize_caches()\n            self._active_config = self._config", "        else:\n            self._initialize_caches()\n            self._active_config = self._config", "caught"),
        ("override-returns-self", "tatsu/util/configs.py", "        assert dataclasses.is_dataclass(self)\n        return dataclasses.replace(self, **overrides)", "        if not overrides:\n            return self\n        return dataclasses.replace(self, **overrides)", "caught"),
        ("parse-config-stored-on-model", "tatsu/peg/base.py", "        config = self.config.override_config(config)\n        assert isinstance(config, ParserConfig)\n        # NOTE: bw-comp", "        config = self._config = self.config.override_config(config)\n        assert isinstance(config, ParserConfig)\n        # NOTE: bw-comp", "caught"),
        ("shared-parse-context", "tatsu/peg/base.py", "        return ModelContext(self.rules, config=self.config, asmodel=asmodel)", "        if not hasattr(self, '_ctx_cached'):\n            self._ctx_cached = ModelContext(self.rules, config=self.config, asmodel=asmodel)\n        return self._ctx_cached", "caught"),
        ("semantic-action-cache-by-name", "tatsu/contexts/core.py", "        return find_cached_semantic_action(self.semantics, name)", "        cache = globals().setdefault('_ACTION_CACHE', {})\n        if name not in cache:\n            cache[name] = find_cached_semantic_action(self.semantics, name)\n        return cache[name]", "caught"),
        ("global-default-builder", "tatsu/contexts/core.py", "        if not self.config.semantics and asmodel:\n            self.config.semantics = ModelBuilderSemantics()\n        self.semantics: type | None = config.semantics", "        if not self.config.semantics and asmodel:\n            self.config.semantics = globals().setdefault('_SHARED_BUILDER', ModelBuilderSemantics())\n        self.semantics: type | None = config.semantics", "caught-thorough-history"),
        ("revert-firstset-fix", "tatsu/peg/base.py", "self._firstset = self._first(k, self._rule_firstsets())", "self._firstset = self._first(k, defaultdict(set))", "caught"),
        ("synthesize-reads-its-base-from-the-registry", "tatsu/objectmodel/synth.py", "    if __synth_base not in bases:\n        bases = (*bases, __synth_base)\n", "    if SynthNode not in bases:\n        bases = (*bases, SynthNode)\n", "caught-thorough-history"),
        ("find-rule-iterates-a-set", "tatsu/parsing.py", "    for rulename in (name, name.strip('_'), f'_{name}_', f'_{name}'):", "    for rulename in {name, name.strip('_'), f'_{name}_', f'_{name}'}:", "caught"),
        ("unknown-rules-in-set-order", "tatsu/peg/base.py", "msg = ' '.join(sorted(missing))", "msg = ' '.join(missing)", "caught"),
        ("no-synth-lock", "tatsu/objectmodel/synth.py", "    with __registry_lock:\n", "    if True:\n", "caught-thorough"),
        ("no-optimize-lock", "tatsu/peg/base.py", "        with _optimize_lock:\n            if isinstance(self._optimized, Grammar):", "        if True:\n            if isinstance(self._optimized, Grammar):", "caught-thorough"),
        # negative controls
        ("NC-no-compile-cache", "tatsu/api/api.py", "    if key in cache and not (asmodel and custom_builder):", "    if False:", "quiet"),
        ("NC-optimized-not-cached", "tatsu/peg/base.py", "            self._optimized = new  # NOTE cache optimized grammar\n", "            pass\n", "quiet"),
    ],
    "C19": [
        ("told-before-newline-check", "tatsu/packetz/queue.py", """                if not raw.endswith(b"\\n"):
                    break

                self._told = max(q.tell(), self._told)
""", """                self._told = max(q.tell(), self._told)
                if not raw.endswith(b"\\n"):
                    break
""", "caught"),
        ("no-newline-check", "tatsu/packetz/queue.py", """                if not raw.endswith(b"\\n"):
                    break
""", "", "caught"),
        ("skip-checksum", "tatsu/packetz/packet.py", "    if hash != actual:", "    if False and hash != actual:", "caught"),
        ("writer-truncates", "tatsu/packetz/queue.py", 'self.path.open("at", encoding="utf-8", buffering=1)', 'self.path.open("wt", encoding="utf-8", buffering=1)', "caught"),
        ("write-without-newline", "tatsu/packetz/queue.py", 'queue.write(self._line_start() + serial + "\\n")', 'queue.write(self._line_start() + serial)', "caught"),
        ("swallow-and-yield", "tatsu/packetz/queue.py", "                    continue  # Skip corrupt rows safely\n", "                    packet = Packet(to='?', data=None)\n", "caught"),
        ("revert-rle-fix", "tatsu/packetz/compact.py", '    return rle_pattern.sub(expand, text)\n', '    return re.sub(r"~([^~])(\\d+)~", lambda m: m.group(1) * int(m.group(2)), text).replace("~~", "~")\n', "caught"),
        ("revert-id-fix", "tatsu/util/misc.py", 'return f"{i2greek(mn, width=d)}-{i2greek(os.getpid())}-{i2greek(next(_id_serial))}"', "return i2greek(mn, width=d)", "caught"),
        ("id-without-serial", "tatsu/util/misc.py", 'return f"{i2greek(mn, width=d)}-{i2greek(os.getpid())}-{i2greek(next(_id_serial))}"', 'return f"{i2greek(mn, width=d)}-{i2greek(os.getpid())}"', "caught"),
        ("revert-text-mode-reader", "tatsu/packetz/queue.py", 'with self.path.open("rb", buffering=1024 * 256) as q:', 'with self.path.open("rt", encoding="utf-8", buffering=1024 * 256) as q:', "caught"),
        ("reader-errors-replace", "tatsu/packetz/queue.py", 'with self.path.open("rb", buffering=1024 * 256) as q:', 'with self.path.open("rt", encoding="utf-8", errors="replace", newline="\\n", buffering=1024 * 256) as q:', "caught"),
        ("revert-tty-fix", "tatsu/packetz/packet.py", "        return '\\\\u001b' if m.group(1) == 'e' else m.group(0)\n\n    return JSON_ESCAPE_RE.sub(unescape, s)", "        return m.group(0)\n\n    return s.replace('\\\\e', '\\x1b')", "caught"),
        ("revert-at-key-fix", "tatsu/packetz/packet.py", "    s = AT_KEY_RE.sub(r'\"@\\1\":', s)\n", "", "caught"),
        ("revert-surrogate-fix", "tatsu/packetz/packet.py", "    value = LONE_SURROGATE_RE.sub(lambda m: f'\\\\u{ord(m.group()):04x}', value)\n", "", "caught"),
        ("deliver-out-of-file-order", "tatsu/packetz/queue.py", "            while raw := q.readline():\n", "            for raw in sorted(q.readlines(), key=lambda b: (not b.endswith(b'\\n'), -len(b))):\n", "caught"),
        ("async-no-sleep", "tatsu/packetz/queue.py", "                await asyncio.sleep(0.01)\n", "                pass\n", "caught"),
        ("told-past-partial-on-eof", "tatsu/packetz/queue.py", """                if not raw.endswith(b"\\n"):
                    break
""", """                if not raw.endswith(b"\\n"):
                    if len(raw) > 64:
                        self._told = max(q.tell(), self._told)
                    break
""", "caught"),
        ("seen-keyed-by-prefix", "tatsu/packetz/queue.py", "                if packet.id not in self._seen:\n                    self._seen.add(packet.id)", "                if packet.id[:8] not in self._seen:\n                    self._seen.add(packet.id[:8])", "caught"),
        ("compact-dict-keys-too", "tatsu/packetz/compact.py", "        return {k: compact_value(v) for k, v in data.items()}", "        return {rle_encode(k): compact_value(v) for k, v in data.items()}", "caught"),
        ("blank-line-ends-read", "tatsu/packetz/queue.py", """                if not raw.endswith(b"\\n"):
                    break
""", """                if not raw.endswith(b"\\n") or not raw.strip():
                    break
""", "caught"),
        # negative controls
        ("id-prefix-computed-once-per-process", "tatsu/util/misc.py", """    d = 8
    t = time.monotonic_ns()
    _mm, mn = divmod(t, 10**d)
    return f"{i2greek(mn, width=d)}-{i2greek(os.getpid())}-{i2greek(next(_id_serial))}\"""", """    global _ID_PREFIX
    if _ID_PREFIX is None:
        _mm, mn = divmod(time.monotonic_ns(), 10**8)
        _ID_PREFIX = f"{i2greek(mn, width=8)}-{i2greek(os.getpid())}"
    return f"{_ID_PREFIX}-{i2greek(next(_id_serial))}"


_ID_PREFIX = None
""", "caught"),
        ("fromjson-two-frames-per-dict-level", "tatsu/util/fromjson.py", """                    return {
                        name: dfs(value)
                        for name, value in map.items()
                        if name != "__class__"
                    }""", "                    return mapped()", "caught"),
        ("send-does-not-start-a-new-line", "tatsu/packetz/queue.py", 'queue.write(self._line_start() + serial + "\\n")', 'queue.write(serial + "\\n")', "caught"),
        ("NC-told-min", "tatsu/packetz/queue.py", "self._told = max(q.tell(), self._told)", "self._told = min(q.tell(), self._told)", "quiet"),
        ("no-seen-dedupe", "tatsu/packetz/queue.py", "                if packet.id not in self._seen:\n                    self._seen.add(packet.id)\n                    yield packet", "                if True:\n                    yield packet", "caught"),
        ("NC-bigger-read-buffer", "tatsu/packetz/queue.py", 'with self.path.open("rb", buffering=1024 * 256) as q:', 'with self.path.open("rb", buffering=1024 * 1024) as q:', "quiet"),
    ],
    "C18": [
        ("payloads-walked-twice", "tatsu/parproc/parproc.py", "    tasks = [\n        Task(", "    total = len(list(payloads))  # for a progress message\n    tasks = [\n        Task(", "caught"),
        ("outcome-cleared-after-yield", "tatsu/parproc/pmap.py", "                        yield future.result()\n", "                        result = future.result()\n                        yield result\n                        result.outcome = None  # the consumer has seen it: free the memory\n", "caught"),
        ("no-pop", "tatsu/parproc/pmap.py", "_task = futures.pop(future)", "_task = futures.get(future)", "caught"),
        ("pop-never-refill", "tatsu/parproc/pmap.py", "for task in islice(taskiter, 1):", "for task in islice(taskiter, 0):", "caught"),
        ("window-minus-one", "tatsu/parproc/pmap.py", "n = 1 + (max_workers or 8)", "n = (max_workers or 8) - 1", "caught"),
        ("leave-after-first-round", "tatsu/parproc/pmap.py", "                        if stop.is_set():\n                            break\n",
         "                        if stop.is_set():\n                            break\n                    break\n", "caught"),
        ("single-task-returns-nothing", "tatsu/parproc/parproc.py", "        yield taskproc(tasks[0])\n        return", "        taskproc(tasks[0])\n        return", "caught"),
        ("exception-cleared-in-finally", "tatsu/parproc/task.py", "        result.runtime = elapsed\n", "        result.runtime = elapsed\n        result.exception = None\n", "caught"),
        ("finally-not-setting-outcome", "tatsu/parproc/task.py", "        result.outcome = task.pickable(outcome)\n", "        pass\n", "caught"),
        ("pickable-twice", "tatsu/parproc/task.py", "result.outcome = task.pickable(outcome)", "result.outcome = task.pickable(task.pickable(outcome))", "caught"),
        ("islice-extra-task", "tatsu/parproc/pmap.py", "for task in islice(taskiter, 1):\n                                new_future = ex.submit(process, task)\n                                futures[new_future] = task",
         "for task in islice(taskiter, 2):\n                                new_future = ex.submit(process, task)\n                            if True:\n                                futures[new_future] = task", "caught"),
        ("yield-twice-when-last", "tatsu/parproc/pmap.py", "                        yield future.result()\n", "                        yield future.result()\n                        if not futures and _task.payload.raises():\n                            yield future.result()\n", "caught"),
        ("drop-result-of-failed-when-refilling", "tatsu/parproc/pmap.py", "                        yield future.result()\n",
         "                        if future.result().exception is not None and len(futures) > n - 1:\n                            continue\n                        yield future.result()\n", "caught"),
        ("args-dropped", "tatsu/parproc/task.py", "outcome = task.func(task.payload, *task.args, **task.kwargs)", "outcome = task.func(task.payload, **task.kwargs)", "caught"),
        ("sequential-skips-failures", "tatsu/parproc/parproc.py", "yield from map(taskproc, tasks)", "yield from (r for r in map(taskproc, tasks) if r.exception is None)", "caught"),
        ("sequential-clears-traceback", "tatsu/parproc/parproc.py", "yield from map(taskproc, tasks)", "for _r in map(taskproc, tasks):\n            if _r.exception is not None:\n                _r.exception.__traceback__ = None\n            yield _r", "caught"),
        ("payload-restored-by-path", "tatsu/parproc/parproc.py", "yield from pmap(stop, taskproc, tasks, max_workers)", "sent = {getattr(t.payload, 'path', None): t.payload for t in tasks}\n        for _r in pmap(stop, taskproc, tasks, max_workers):\n            _r.payload = sent.get(getattr(_r.payload, 'path', None), _r.payload)\n            yield _r", "caught"),
        ("results-deduplicated-by-payload", "tatsu/parproc/parproc.py", "yield from pmap(stop, taskproc, tasks, max_workers)", "done = []\n        for _r in pmap(stop, taskproc, tasks, max_workers):\n            if any(_r.payload == p for p in done):\n                continue\n            done.append(_r.payload)\n            yield _r", "caught"),
        ("recursion-limit-restored-by-every-task", "tatsu/parproc/task.py", "        _limit_users -= 1\n        if _limit_users == 0:\n            sys.setrecursionlimit(_limit_saved)", "        _limit_users -= 1\n        sys.setrecursionlimit(_limit_saved)", "caught"),
        ("recursion-limit-without-lock", "tatsu/parproc/task.py", "    global _limit_users\n    with _limit_lock:\n", "    global _limit_users\n    if True:\n", "caught"),  # restore slips into raise's critical section between its test and its increment
        ("as-completed-with-deadline", "tatsu/parproc/pmap.py", "for future in as_completed(futures):", "for future in as_completed(futures, timeout=1800.0):", "caught"),
        ("recursion-error-ends-the-run", "tatsu/parproc/task.py", "if isinstance(e, RuntimeError) and not isinstance(e, RecursionError):", "if isinstance(e, RuntimeError):", "caught"),
        ("processing-loop-dedupes-file-names", "tatsu/parproc/legacy.py", "paths = [Path(f) for f in filenames]", "paths = sorted({Path(f) for f in filenames})[:-1]", "caught"),
        ("processing-loop-text-of-first-file", "tatsu/parproc/legacy.py", "payloads = [VisualPayload(p, p.read_text()) for p in paths]", "payloads = [VisualPayload(p, paths[0].read_text()) for p in paths]", "caught"),
        # negative controls: behaviour-preserving edits — the check must stay quiet
        ("NC-refill-guard-and-futures", "tatsu/parproc/pmap.py", "if not stop.is_set():\n                            for task", "if not stop.is_set() and (futures or True):\n                            for task", "quiet"),
        ("NC-window-doubled", "tatsu/parproc/pmap.py", "n = 1 + (max_workers or 8)", "n = 2 * (1 + (max_workers or 8))", "quiet"),
        ("NC-submit-all-at-once", "tatsu/parproc/pmap.py", "if issubclass(executorcls, ProcessPoolExecutor):", "if False:", "quiet"),
    ],
}


def _copy_repo(dst):
    src = runner.repo_root()
    shutil.copytree(os.path.join(src, "tatsu"), os.path.join(dst, "tatsu"),
                    ignore=shutil.ignore_patterns("__pycache__", "*.pyc"))


def sensitivity(prop, only=None) -> int:
    if prop is None or prop not in MUTANTS:
        print("usage: selftest-sensitivity <id>")
        return 2
    base = "/dev/shm" if os.path.isdir("/dev/shm") else None
    ok = True
    rows = []
    for name, rel, old, new, expect in MUTANTS[prop]:
        if only and only != name:
            continue
        d = tempfile.mkdtemp(prefix="verif-mut-", dir=base)
        try:
            _copy_repo(d)
            path = os.path.join(d, rel)
            src = open(path).read()
            if src.count(old) != 1:
                print(f"MUTANT-STALE {name}: pattern occurs {src.count(old)}x in {rel}")
                ok = False
                continue
            open(path, "w").write(src.replace(old, new))
            env = dict(os.environ, VERIF_REPO=d, VERIF_EVIDENCE_DIR=os.path.join(d, "evidence"), VERIF_REPLAY_DIR=os.path.join(d, "replays"))
            t0 = time.time()
            cmd = [os.path.join(VERIF, "check"), prop, "--tier", "quick"]
            if expect == "caught-thorough":
                # needs a particular interleaving inside a short window: thread schedules only, more of them
                env["VERIF_C10_MODE"] = "threads"
                cmd = [os.path.join(VERIF, "check"), prop, "--runs", "6000", "--wall", "900"]
                expect = "caught"
            if expect == "caught-thorough-history":
                # needs four particular calls in one history: more histories
                env["VERIF_C10_MODE"] = "history"
                cmd = [os.path.join(VERIF, "check"), prop, "--runs", "36000", "--wall", "1800"]
                expect = "caught"
            p = subprocess.run(cmd, env=env, capture_output=True, text=True, timeout=3600)
            got = "caught" if (p.returncode == 1 and "VIOLATION property=" in p.stdout) else ("quiet" if p.returncode == 0 else f"error({p.returncode})")
            sig = [l.strip() for l in p.stdout.splitlines() if l.strip().startswith("signature=")]
            rows.append((name, expect, got, round(time.time() - t0, 1), sig[:1]))
            print(f"  {name:40s} expect={expect:7s} got={got:9s} {time.time() - t0:5.1f}s {sig[:1]}", flush=True)
            if got != expect:
                ok = False
                print(p.stdout[-1500:])
                print(p.stderr[-1500:])
        finally:
            shutil.rmtree(d, ignore_errors=True)
    print(f"[selftest-sensitivity {prop}] {'OK' if ok else 'FAILED'}: {sum(1 for r in rows if r[1] == r[2])}/{len(rows)} as expected")
    return 0 if ok else 2
