"""Batch runner: many seeded runs over worker processes, aggregation, minimisation, evidence, exit code."""
from __future__ import annotations

import faulthandler
import importlib
import json
import multiprocessing
import os
import shutil
import sys
import tempfile
import time
from collections import Counter
from concurrent.futures import ProcessPoolExecutor, as_completed
from concurrent.futures.process import BrokenProcessPool

from .kernel import Decider, HarnessError, derive
from .minimise import minimise

VERIF = os.path.dirname(os.path.dirname(os.path.abspath(__file__)))
MODULES = {"C18": "sim.c18_parproc", "C19": "sim.c19_packetz", "C10": "sim.c10_api"}


def load(prop):
    return importlib.import_module(MODULES[prop])


def repo_root() -> str:
    return os.environ.get("VERIF_REPO", "/repo")


def known_findings(prop):
    path = os.path.join(VERIF, "known_findings.json")
    if not os.path.exists(path):
        return {}
    out = {}
    for ent in json.load(open(path)):
        if ent.get("property") == prop and ent.get("status") == "known":
            out[ent["signature"]] = ent
    return out


def make_scratch() -> str:
    base = "/dev/shm" if os.path.isdir("/dev/shm") and os.access("/dev/shm", os.W_OK) else None
    return tempfile.mkdtemp(prefix="verif-sim-", dir=base)


_WORKER = {}


def _worker_init(prop, scratch, quiet):
    faulthandler.enable()
    try:
        import resource

        # a decompression bomb in the code under test must end as MemoryError in that run, not as a dead machine
        lim = int(os.environ.get("VERIF_WORKER_AS_LIMIT", str(3 << 30)))
        resource.setrlimit(resource.RLIMIT_AS, (lim, lim))
    except Exception:  # noqa: BLE001
        pass
    d = tempfile.mkdtemp(prefix="w-", dir=scratch)
    os.chdir(d)
    if quiet:
        devnull = os.open(os.devnull, os.O_WRONLY)
        os.dup2(devnull, 2)
    import warnings

    warnings.simplefilter("ignore")
    _WORKER["mod"] = load(prop)
    _WORKER["dir"] = d
    if hasattr(_WORKER["mod"], "worker_init"):
        _WORKER["mod"].worker_init(d)


def _run_chunk(prop, base_seed, start, count, opts):
    mod = _WORKER["mod"]
    faulthandler.dump_traceback_later(opts.get("chunk_timeout", 300), exit=True)
    agg = {
        "runs": 0, "nontrivial": 0, "digests": [], "state_sigs": [], "probes": Counter(), "faults": Counter(),
        "steps": 0, "sim_ns": 0, "switches": 0, "violations": [], "samples": [], "harness_errors": [], "extra": Counter(),
        "t": 0.0,
    }
    t0 = time.time()
    im = opts.get("index_map")
    for r0 in range(start, start + count):
        r = im[0] + r0 * im[1] if im else r0
        seed = derive(base_seed, prop, r)
        try:
            spec = mod.gen_spec(seed, **opts.get("gen_kwargs", {}))
            rr = mod.run(spec, Decider(seed=seed))
        except HarnessError as e:
            agg["harness_errors"].append({"run": r, "seed": seed, "error": repr(e)})
            continue
        except Exception as e:  # noqa: BLE001
            import traceback

            agg["harness_errors"].append({"run": r, "seed": seed, "error": traceback.format_exc()[-2000:]})
            continue
        agg["runs"] += 1
        if rr.harness_error:
            agg["harness_errors"].append({"run": r, "seed": seed, "error": rr.harness_error})
            continue
        if rr.nontrivial:
            agg["nontrivial"] += 1
            agg["digests"].append(rr.digest)
        agg["state_sigs"].append(str(rr.state_sig))
        agg["probes"].update(rr.probes)
        agg["faults"].update(rr.faults)
        agg["steps"] += rr.steps
        agg["sim_ns"] += rr.sim_ns
        for k, v in (rr.extra or {}).items():
            if isinstance(v, (int, float)):
                agg["extra"][k] += v
        if rr.violation is not None and len(agg["violations"]) < 20:
            agg["violations"].append({"run": r, "seed": seed, "spec": spec, "violation": rr.violation})
        if rr.nontrivial and len(agg["samples"]) < 1 and (r % 7 == 0):
            agg["samples"].append({"run": r, "seed": seed, "spec": spec, "decisions": rr.decisions[:200],
                                   "n_decisions": len(rr.decisions), "digest": rr.digest})
        if time.time() - t0 > opts.get("chunk_budget", 1e9):
            break
    faulthandler.cancel_dump_traceback_later()
    if hasattr(mod, "worker_refs") and os.environ.get("VERIF_REF_DUMP"):
        os.makedirs(os.environ["VERIF_REF_DUMP"], exist_ok=True)
        with open(os.path.join(os.environ["VERIF_REF_DUMP"], f"{os.getpid()}.json"), "w") as f:
            json.dump(mod.worker_refs(), f)
    agg["t"] = time.time() - t0
    agg["probes"] = dict(agg["probes"])
    agg["faults"] = dict(agg["faults"])
    agg["extra"] = dict(agg["extra"])
    return agg


def run_batch(prop, tier, seed, runs, procs, wall_cap, chunk=50, opts=None, quiet=True):
    """Run `runs` seeded runs (stopping early at wall_cap seconds).  Returns the merged aggregate."""
    opts = dict(opts or {})
    scratch = make_scratch()
    t0 = time.time()
    total = {
        "runs": 0, "nontrivial": 0, "digests": set(), "state_sigs": set(), "probes": Counter(), "faults": Counter(),
        "steps": 0, "sim_ns": 0, "violations": [], "samples": [], "harness_errors": [], "extra": Counter(),
        "planned": runs, "stopped_early": False, "cpu_s": 0.0, "violation_counts": Counter(), "unlisted_violations": 0,
    }
    kf = known_findings(prop)
    try:
        ctx = multiprocessing.get_context("fork")
        with ProcessPoolExecutor(max_workers=procs, mp_context=ctx, initializer=_worker_init,
                                 initargs=(prop, scratch, quiet)) as ex:
            starts = list(range(0, runs, chunk))
            futs = {}
            it = iter(starts)
            # keep at most 2*procs chunks in flight so that a wall cap stops the batch promptly

            def submit_next():
                for s in it:
                    futs[ex.submit(_run_chunk, prop, seed, s, min(chunk, runs - s), opts)] = s
                    return True
                return False

            for _ in range(2 * procs):
                if not submit_next():
                    break
            while futs:
                done = next(as_completed(list(futs), timeout=opts.get("chunk_timeout", 600) + 60))
                futs.pop(done)
                if done.cancelled():
                    continue  # a chunk that had not started when the batch decided to stop
                agg = done.result()
                total["runs"] += agg["runs"]
                total["nontrivial"] += agg["nontrivial"]
                total["digests"].update(agg["digests"])
                total["state_sigs"].update(agg["state_sigs"])
                total["probes"].update(agg["probes"])
                total["faults"].update(agg["faults"])
                total["extra"].update(agg["extra"])
                total["steps"] += agg["steps"]
                total["sim_ns"] += agg["sim_ns"]
                total["cpu_s"] += agg["t"]
                for v in agg["violations"]:
                    b = sig_base(v["violation"]["signature"])
                    total["violation_counts"][b] += 1
                    if match_known(kf, b) is not None:
                        if total["violation_counts"][b] <= 5:
                            total["violations"].append(v)
                    else:
                        total["violations"].append(v)
                        total["unlisted_violations"] += 1
                total["harness_errors"].extend(agg["harness_errors"])
                if len(total["samples"]) < 3:
                    total["samples"].extend(agg["samples"][: 3 - len(total["samples"])])
                if total["unlisted_violations"] >= opts.get("max_violations", 40) and not total["stopped_early"]:
                    # enough material to report; more of the same adds nothing
                    total["stopped_early"] = True
                    total["stopped_on_violations"] = True
                    for f in futs:
                        f.cancel()
                    it = iter(())
                elif time.time() - t0 > wall_cap:
                    total["stopped_early"] = True
                    for f in futs:
                        f.cancel()
                    # chunks already running finish (bounded by chunk size); do not start new ones
                    it = iter(())
                else:
                    submit_next()
    except BrokenProcessPool as e:
        raise HarnessError(f"worker process died: {e}") from e
    finally:
        shutil.rmtree(scratch, ignore_errors=True)
    total["wall_s"] = time.time() - t0
    return total


def fork_call(fn, timeout=60.0):
    """Run fn() in a forked child in its own process group; kill the whole group on timeout.
    Returns ("ok", value) | ("err", traceback text) | ("timeout", None) | ("died", wait status)."""
    import pickle
    import select
    import signal
    import traceback

    r, w = os.pipe()
    sys.stdout.flush()
    pid = os.fork()
    if pid == 0:
        code = 0
        try:
            os.setsid()
            os.close(r)
            try:
                data = pickle.dumps(("ok", fn()))
            except BaseException:  # noqa: BLE001
                data = pickle.dumps(("err", traceback.format_exc()[-3000:]))
            with os.fdopen(w, "wb") as f:
                # length first: processes started by fn() (pool workers, a manager) inherit the pipe and may outlive
                # this child, so the parent must not wait for end-of-file
                f.write(len(data).to_bytes(8, "big") + data)
        except BaseException:  # noqa: BLE001
            code = 3
        finally:
            os._exit(code)
    os.close(w)
    chunks = []
    have = 0
    deadline = time.time() + timeout
    timed_out = False
    try:
        while True:
            if have >= 8 and have >= 8 + int.from_bytes(b"".join(chunks)[:8], "big"):
                break
            left = deadline - time.time()
            if left <= 0:
                timed_out = True
                break
            rl, _, _ = select.select([r], [], [], min(left, 2.0))
            if rl:
                b = os.read(r, 1 << 20)
                if not b:
                    break
                chunks.append(b)
                have += len(b)
    finally:
        os.close(r)
    if timed_out:
        try:
            os.killpg(pid, signal.SIGKILL)
        except Exception:  # noqa: BLE001
            pass
        try:
            os.kill(pid, signal.SIGKILL)
        except Exception:  # noqa: BLE001
            pass
        os.waitpid(pid, 0)
        return ("timeout", None)
    _, status = os.waitpid(pid, 0)
    try:
        os.killpg(pid, signal.SIGKILL)  # whatever fn() started and left behind
    except Exception:  # noqa: BLE001
        pass
    buf = b"".join(chunks)
    if len(buf) < 8 or len(buf) < 8 + int.from_bytes(buf[:8], "big"):
        return ("died", status)
    return pickle.loads(buf[8:])


def write_replay(prop, seed, m, hashseed=None):
    rdir = os.environ.get("VERIF_REPLAY_DIR") or os.path.join(VERIF, "replays")
    os.makedirs(rdir, exist_ok=True)
    path = os.path.join(rdir, f"{prop}-{seed}.json")
    doc = {
        "property": prop, "seed": seed, "hashseed": os.environ.get("PYTHONHASHSEED", "0") if hashseed is None else hashseed,
        "spec": m["spec"], "decisions": m["decisions"],
        "violation": m["violation"], "digest": m["digest"],
    }
    with open(path, "w") as f:
        json.dump(doc, f, indent=1, ensure_ascii=True)
    return path


def in_scratch(fn, quiet=True):
    """Run fn() with a private scratch cwd (minimisation / replay in the parent process).
    The code under test reports every skipped queue line on stderr and through warnings: silenced here."""
    import warnings

    scratch = make_scratch()
    old = os.getcwd()
    os.chdir(scratch)
    saved_fd = None
    if quiet:
        sys.stderr.flush()
        saved_fd = os.dup(2)
        dn = os.open(os.devnull, os.O_WRONLY)
        os.dup2(dn, 2)
        os.close(dn)
    try:
        with warnings.catch_warnings():
            warnings.simplefilter("ignore")
            return fn()
    finally:
        if saved_fd is not None:
            sys.stderr.flush()
            os.dup2(saved_fd, 2)
            os.close(saved_fd)
        os.chdir(old)
        shutil.rmtree(scratch, ignore_errors=True)


def sig_base(sig: str) -> str:
    return sig.split("|", 1)[0]


def match_known(kf: dict, sig: str):
    for k, ent in kf.items():
        if sig == k or sig.startswith(k + "|"):
            return k
        marker = ent.get("consequence_marker")
        if marker and marker in sig_base(sig):
            return k
    return None


def triage(prop, total, minimise_budget=45.0, max_reports=6):
    """Minimise violations, split them into known findings and new violations.  Returns (known, new).

    Violations are grouped by the base of their signature (clause + discriminator, without the list of
    fault kinds that happened to be configured).  Every group is minimised (up to 2 examples) and the
    signature of the *minimised* run decides: listed in known_findings.json -> KNOWN-FINDING, else VIOLATION.
    """
    mod = load(prop)
    kf = known_findings(prop)
    known, new = {}, []
    groups = {}
    for v in total["violations"]:
        groups.setdefault(sig_base(v["violation"]["signature"]), []).append(v)
    reported = set()
    for base, vs in sorted(groups.items()):
        if len(new) >= max_reports:
            break
        vs = sorted(vs, key=lambda v: mod.spec_size(v["spec"]))
        settled = False
        for v in vs[:2]:
            def work(v=v):
                if hasattr(mod, "worker_init"):
                    mod.worker_init(os.getcwd())
                return minimise(mod, v["spec"], v["seed"], v["violation"]["clause"], budget_s=minimise_budget)

            import signal

            def _alarm(signum, frame):
                raise HarnessError("minimisation did not finish within its wall-clock guard (a run hangs outside the simulator's step accounting?)")

            old_handler = signal.signal(signal.SIGALRM, _alarm)
            signal.alarm(int(minimise_budget * 6) + 120)
            try:
                m = in_scratch(work)
            except HarnessError as e:
                m = None
                total["harness_errors"].append({"run": v["run"], "seed": v["seed"], "error": f"minimisation failed: {e}"})
            finally:
                signal.alarm(0)
                signal.signal(signal.SIGALRM, old_handler)
            if m is None:
                # Not reproduced in this (long-lived) process.  Before calling it nondeterminism, run the very same
                # (spec, seed) once more in a pristine forked child, the way a worker ran it.
                def again(v=v):
                    d = tempfile.mkdtemp(prefix="again-", dir=make_scratch())
                    os.chdir(d)
                    if hasattr(mod, "worker_init"):
                        mod.worker_init(d)
                    rr = mod.run(v["spec"], Decider(seed=v["seed"]))
                    return {"violation": rr.violation, "decisions": rr.decisions, "digest": rr.digest}

                kind, val = fork_call(again, timeout=300)
                if kind == "ok" and val["violation"] is not None and val["violation"]["clause"] == v["violation"]["clause"]:
                    m = {"spec": v["spec"], "seed": v["seed"], "decisions": val["decisions"], "violation": val["violation"],
                         "digest": val["digest"], "minimise_runs": 0, "not_minimised": True}
                    total["harness_errors"].append({"run": v["run"], "seed": v["seed"], "error": "violation reproduces in a fresh child but not in the triage process (reported unminimised)"})
                else:
                    total["harness_errors"].append({"run": v["run"], "seed": v["seed"],
                                                    "error": f"violation {v['violation']['signature']} did not reproduce on re-run ({kind})"})
                    continue
            msig = m["violation"]["signature"]
            kmatch = match_known(kf, msig)
            if kmatch is not None:
                known.setdefault(kmatch, {"entry": kf[kmatch], "count": 0, "example_seed": v["seed"]})
                known[kmatch]["count"] += total.get("violation_counts", {}).get(base, len(vs))
                settled = True
                break
            if sig_base(msig) in reported:
                settled = True
                break
            reported.add(sig_base(msig))
            path = write_replay(prop, v["seed"], m)
            new.append({"signature": msig, "replay": path, "detail": m["violation"]["detail"], "seed": v["seed"], "raw_count": len(vs)})
            settled = True
            break
        if not settled:
            continue
    return known, new


def write_evidence(prop, tier, seed, total, known, new, mod, extra=None):
    cov = {
        "evaluations": total["runs"],
        "distinct_nontrivial": len(total["digests"]),
        "rule": mod.RULE,
        "samples": total["samples"][:3],
        "nontrivial_runs": total["nontrivial"],
        "distinct_state_signatures": len(total["state_sigs"]),
        "planned_runs": total["planned"],
        "stopped_early_at_wall_cap": total["stopped_early"],
        "runs_per_hour": int(total["runs"] / max(total["wall_s"], 1e-9) * 3600),
        "seeds": {"VERIF_SEED": seed, "run_seed_rule": "derive(VERIF_SEED, property, r) for r in 0..evaluations-1"},
        "simulated_steps": total["steps"],
        "simulated_seconds": total["sim_ns"] / 1e9,
        "faults_fired": dict(sorted(total["faults"].items())),
        "probes": dict(sorted(total["probes"].items())),
        "probes_at_zero": sorted(p for p in getattr(mod, "EXPECTED_PROBES", []) if not total["probes"].get(p)),
        "components": mod.COMPONENTS,
        "known_findings_seen": {k: v["count"] for k, v in known.items()},
        "new_violations": new,
        "harness_errors": len(total["harness_errors"]),
        "cpu_seconds": round(total["cpu_s"], 1),
    }
    if os.environ.get("VERIF_DETERMINISM_SELFTEST"):
        cov["determinism_selftest"] = os.environ["VERIF_DETERMINISM_SELFTEST"]
    if extra:
        cov.update(extra)
    doc = {
        "property_id": prop, "tier": tier, "seed": seed, "level": "exploration", "coverage": cov,
        "assumptions": getattr(mod, "ASSUMPTIONS", []),
        "wall_s": round(total["wall_s"], 2), "violations": len(new),
    }
    edir = os.environ.get("VERIF_EVIDENCE_DIR") or os.path.join(VERIF, "evidence")
    os.makedirs(edir, exist_ok=True)
    path = os.path.join(edir, f"{prop}.json")
    tmp = path + ".tmp"
    with open(tmp, "w") as f:
        json.dump(doc, f, indent=1, ensure_ascii=True, default=repr)
    os.replace(tmp, path)
    return path


def verify_replay(prop, path):
    """Replay the file in a fresh interpreter; True iff it reports the same signature and event-log digest."""
    import subprocess

    try:
        doc = json.load(open(path))
    except Exception:  # noqa: BLE001
        return None
    if "decisions" not in doc or "spec" not in doc:
        return None  # not a seeded run (e.g. a real-pool report)
    try:
        p = subprocess.run([os.path.join(VERIF, "check"), prop, "--replay", path], capture_output=True, text=True, timeout=600)
    except Exception:  # noqa: BLE001
        return False
    return p.returncode == 1 and "reproduces_recorded=True" in p.stdout


def finish(prop, known, new, total) -> int:
    for sig, k in sorted(known.items()):
        print(f"KNOWN-FINDING: property={prop} {sig} — {k['entry'].get('what_fails', '')} (seen {k['count']}x)")
    for v in new:
        print(f"VIOLATION property={prop} replay={v['replay']}")
        print(f"  signature={v['signature']} detail={v['detail'][:300]}")
        ok = verify_replay(prop, v["replay"])
        if ok is not None:
            v["replay_verified_in_fresh_interpreter"] = ok
            print(f"  replay in a fresh interpreter reproduces the recorded run exactly: {'yes' if ok else 'NO'}")
    if total["harness_errors"]:
        try:
            with open(os.path.join(tempfile.gettempdir(), "verif-harness-errors.log"), "a") as f:
                f.write(json.dumps({"t": time.time(), "prop": prop, "repo": repo_root(), "new": [v["signature"] for v in new],
                                    "errors": total["harness_errors"][:10]}, default=repr) + "\n")
        except OSError:
            pass
        for h in total["harness_errors"][:5]:
            print(f"HARNESS-ERROR property={prop} run={h.get('run')} seed={h.get('seed')}: {str(h.get('error'))[-600:]}", file=sys.stdout)
    if new:
        return 1
    if total["harness_errors"]:
        return 2
    return 0
