"""C18 — parallel processing yields exactly one result per payload.

Real code: tatsu.parproc.{parproc, parallel_proc, parproc_visual, active_pmap/executor_pmap, taskproc,
Task, Result}.  Stubs: executor, as_completed, manager Event, thread_time, memory_use (sim.execseam).
"""
from __future__ import annotations

import copy
import json
import random
from collections import Counter
import sys
from contextlib import contextmanager
from dataclasses import dataclass
from pathlib import Path
from typing import Any

from . import execseam
from .kernel import Decider, HarnessError, Sim, Violation, derive

PROP = "C18"


# ------------------------------------------------------------------------------- workload pieces
class CustomParseError(Exception):
    """FailedParse-like: application exception with plain positional args (picklable)."""


class FrozenError(Exception):
    """An immutable exception (state in args only, attribute assignment refused) - picklable, raisable, chainable: the
    interpreter sets __traceback__/__cause__/__context__ without going through __setattr__."""

    __slots__ = ()

    def __setattr__(self, name, value):
        raise AttributeError(f"{type(self).__name__} is immutable")


@dataclass(frozen=True, slots=True)
class FrozenDataError(Exception):
    """An exception declared as a frozen dataclass (a diagnostic record that is also raisable)."""

    code: Any = None
    n: Any = None
    extra: Any = None


class FalsyError(Exception):
    """An exception instance that is false in a boolean context (`if result.exception:` is not `is not None`)."""

    def __bool__(self):
        return False


class NoFindings(Exception):
    """An aggregate-of-findings exception with a length: raised with nothing in it, it is empty, hence falsy."""

    def __len__(self):
        return 0


def _errno_error(name, code):
    import os as _os

    def __init__(self, *args):
        OSError.__init__(self, code, _os.strerror(code))

    return type(name, (OSError,), {"__init__": __init__, "__module__": __name__})


# OSErrors that carry an errno a program may treat as "the whole process is in trouble" (descriptors, memory, disk)
import errno as _errno

EmfileError = _errno_error("EmfileError", _errno.EMFILE)
EnfileError = _errno_error("EnfileError", _errno.ENFILE)
EnomemError = _errno_error("EnomemError", _errno.ENOMEM)
EnospcError = _errno_error("EnospcError", _errno.ENOSPC)
EintrError = _errno_error("EintrError", _errno.EINTR)


class SignatureError(Exception):
    """Own constructor signature; keeps args in step with it, so it pickles."""

    def __init__(self, code=None, n=None, extra=None):
        super().__init__(code, n, extra)
        self.code = code


EXC = {
    "EmfileError": EmfileError, "EnfileError": EnfileError, "EnomemError": EnomemError, "EnospcError": EnospcError, "EintrError": EintrError,
    "FalsyError": FalsyError,
    "NoFindings": NoFindings,
    "FrozenError": FrozenError,
    "FrozenDataError": FrozenDataError,
    "SignatureError": SignatureError,
    "ValueError": ValueError,
    "KeyError": KeyError,
    "OSError": OSError,
    "AssertionError": AssertionError,
    "ZeroDivisionError": ZeroDivisionError,
    "IndexError": IndexError,
    "UnicodeError": UnicodeError,
    "StopIteration": StopIteration,
    "TypeError": TypeError,
    "CustomParseError": CustomParseError,
    "LookupError": LookupError,
    "InterruptedError": InterruptedError,
    "TimeoutError": TimeoutError,
    "PermissionError": PermissionError,
    "EOFError": EOFError,
    "MemoryError": MemoryError,
    "KeyboardInterruptLike": InterruptedError,
    "ArithmeticError": ArithmeticError,
    "Exception": Exception,
    # never captured by design of taskproc (explicit re-raise clause): only in the 'uncaptured' config
    "RuntimeError": RuntimeError,
    "NotImplementedError": NotImplementedError,
    "RecursionError": RecursionError,
}
CAPTURABLE = [
    "ValueError", "KeyError", "OSError", "AssertionError", "ZeroDivisionError", "IndexError",
    "UnicodeError", "StopIteration", "CustomParseError", "InterruptedError", "TimeoutError", "PermissionError", "EOFError", "MemoryError",
    "FrozenError", "FrozenDataError", "SignatureError", "FalsyError", "NoFindings",
    # the payload's own failure (input nested too deeply for the function), which taskproc names in its capture clause -
    # a RuntimeError only by inheritance
    "RecursionError",
    "EmfileError", "EnfileError", "EnomemError", "EnospcError", "EintrError",
]
SUPER = {
    "EmfileError": "OSError", "EnfileError": "OSError", "EnomemError": "OSError", "EnospcError": "OSError", "EintrError": "OSError",
    "KeyError": "LookupError", "IndexError": "LookupError", "ZeroDivisionError": "ArithmeticError",
    "UnicodeError": "ValueError", "InterruptedError": "OSError", "TimeoutError": "OSError", "PermissionError": "OSError",
}
RUNTIME_FAMILY = ["RuntimeError", "NotImplementedError"]


@dataclass
class PlainPayload:
    """Implements the payload protocol (path, payload, raises) without being a VisualPayload."""

    path: Path
    payload: Any
    key: int
    behave: str
    value: Any
    exc: str | None
    exc_args: tuple
    raises_names: tuple
    ret: str = "wrapped"
    chain: str | None = None
    deep: int = 0
    raises_late: tuple | None = None
    nopickle: str | None = None
    retexc: tuple | None = None

    def raises(self):
        return tuple(EXC[n] for n in self.raises_names)


_IDENTITY = lambda x: x  # noqa: E731  a module-level lambda: pickle cannot find it by name


class Opaque:
    """An outcome that cannot cross a process boundary (it holds a callable pickle cannot name)."""

    def __init__(self, v):
        self.v = v
        self.f = _IDENTITY

    def __repr__(self):
        return f"Opaque({self.v!r})"


def _runtime_class(base):
    """An exception class built at run time (by a plugin, a grammar, a factory): isinstance() works, pickle does not."""
    return type(base.__name__, (base,), {"__module__": __name__})


def _visual_payload_class():
    from tatsu.parproc.payload import VisualPayload

    @dataclass(slots=True)
    class VisPayload(VisualPayload):
        key: int = 0
        behave: str = "ok"
        value: Any = None
        exc: str | None = None
        exc_args: tuple = ()
        raises_names: tuple = ()
        ret: str = "wrapped"
        chain: str | None = None
        deep: int = 0
        raises_late: tuple | None = None
        nopickle: str | None = None
        retexc: tuple | None = None

        def raises(self):
            return tuple(EXC[n] for n in self.raises_names)

    VisPayload.__module__ = __name__
    VisPayload.__qualname__ = "VisPayload"
    return VisPayload


VisPayload = None  # created lazily (needs tatsu importable)


def _ensure_classes():
    global VisPayload
    if VisPayload is None:
        VisPayload = _visual_payload_class()


def _recurse(d):
    return 0 if d <= 0 else 1 + _recurse(d - 1)


def _raise(exc_name, exc_args, chain, runtime_class=False):
    """Raise the payload's exception, optionally chained the way wrapping code does (`raise X from low_level`)."""
    if runtime_class:
        raise _runtime_class(EXC[exc_name])(*exc_args)
    if chain:
        how, low = chain.split(":")
        if how == "cause":
            raise EXC[exc_name](*exc_args) from EXC[low]("low level")
        try:
            raise EXC[low]("low level")
        except Exception:  # noqa: BLE001
            raise EXC[exc_name](*exc_args)  # implicit __context__
    raise EXC[exc_name](*exc_args)


FILE_ENTRIES = ("visual_legacy", "processing_loop")
_LEGACY: dict = {}  # file name -> payload spec, for the legacy entry (payloads are plain path strings)


def work(payload, *args, **kwargs):
    """The user function run for every payload; its behaviour is fixed by the spec."""
    if isinstance(payload, Path):
        # taskproc's backwards-compatibility retry called us again with the bare path: a function written for payload
        # objects does something else with a path, it does not repeat itself
        return ["called-again-with-path", payload.name]
    if not hasattr(payload, "behave"):
        name = Path(str(payload.path)).name
        p = _LEGACY[name]
        if p["behave"] == "ok":
            return p["value"] if p.get("ret") == "raw" else [p["value"], list(args), sorted(kwargs.items())]
        _raise(p["exc"], p["exc_args"], p.get("chain"))
    if getattr(payload, "deep", 0):
        _recurse(payload.deep)  # a recursive-descent job on deeply nested input
    late = getattr(payload, "raises_late", None)
    if late is not None:
        payload.raises_names = tuple(late)  # e.g. a pragma found in the input decides which errors are to be captured
    if payload.behave == "ok":
        rx = getattr(payload, "retexc", None)
        if rx:
            # errors as values: the function hands back an exception instance (a finding, a soft error) instead of raising it
            return EXC[rx[0]](*rx[1])
        out = payload.value if getattr(payload, "ret", None) == "raw" else [payload.value, list(args), sorted(kwargs.items())]
        return Opaque(out) if getattr(payload, "nopickle", None) else out
    _raise(payload.exc, payload.exc_args, getattr(payload, "chain", None), runtime_class=bool(getattr(payload, "nopickle", None)))


def pick_str(x):
    return "S:" + json.dumps(x, sort_keys=True, default=repr)


PICKABLE = {"identity": None, "str": pick_str}


class StubBarRow:
    """Stands in for tatsu.barz.BarRow / Multi (the display: a real thread with real sleeps)."""

    def __init__(self, *a, **k):
        self.updates = 0

    def update(self, *a, **k):
        self.updates += 1

    def start(self, *a, **k):
        pass

    def stop(self, *a, **k):
        pass

    def print(self, *a, **k):  # noqa: A003
        pass

    def add_row(self, *a, **k):
        pass


class StubProgress:
    def __init__(self):
        self.updates = 0

    def update(self, *a, **k):
        self.updates += 1

    def stop(self):
        pass


# ------------------------------------------------------------------------------- spec generation
def gen_spec(seed: int, config: str | None = None) -> dict:
    rng = random.Random(derive(seed, "spec"))
    bug = random.Random(derive(seed, "buggify"))
    if config is None:
        config = "captured" if rng.random() < 0.85 else "uncaptured"
    entry = rng.choice(["parproc", "parproc", "parproc", "parallel_proc", "parallel_proc", "parproc_visual", "parproc_visual", "visual_legacy", "processing_loop"])
    pool = "process" if rng.random() < 0.8 else "thread"
    cpu_count = rng.choice([1, 2, 3, 4])
    max_workers = rng.choice([None, None, 1, 1, 2, 3, 4, 5])
    eff = max_workers or cpu_count
    window = 1 + eff
    near = [0, 1, 2, 3, window - 1, window, window + 1, window + 2, 2 * window, 2 * window + 1]
    n = rng.choice(near) if rng.random() < 0.7 else rng.randrange(0, 13)
    n = max(0, min(12, n))
    if rng.random() < 0.06:
        # a real corpus: more payloads than any counter, batch size or block length a loop might use internally
        n = rng.choice([16, 17, 20, 32, 33, 40, 64])
    p_raise = rng.choice([0.0, 0.1, 0.3, 0.6, 1.0])
    payloads = []
    visual = entry in ("parproc_visual", "visual_legacy", "processing_loop")
    by_path = entry in FILE_ENTRIES  # the caller hands over file names; the library builds the payload objects
    # the library's own StrPayload: a path string whose .path / .payload are computed on access (the text is read from the
    # file, as UTF-8, every time somebody asks) - some of the files are not UTF-8; the function reads bytes itself
    sp = random.Random(derive(seed, "strpayload"))
    strp = entry in ("parproc", "parallel_proc") and sp.random() < 0.08
    by_path = by_path or strp
    for k in range(n):
        p = {"key": k, "cls": "visual" if (visual or rng.random() < 0.3) else "plain", "behave": "ok",
             "value": rng.choice([k * 7, f"v{k}", [k, "x"], {"k": k}, None, 0, "", [[]], [], {}, False, 0.0]),
             "exc": None, "exc_args": [], "raises": []}
        if rng.random() < 0.3:
            p["ret"] = "raw"  # the function returns the value itself (falsy outcomes such as 0, '', [] included)
        if rng.random() < 0.04 and not by_path:
            p["deep"] = rng.choice([1500, 3000])  # needs more than the default recursion limit
        if rng.random() < p_raise:
            p["behave"] = "raise"
            pool_ex = list(CAPTURABLE)
            if p["cls"] == "plain":
                pool_ex.append("TypeError")
            p["exc"] = rng.choice(pool_ex)
            p["exc_args"] = rng.choice([[], [f"boom{k}"], ["two", k], [f"e{k}", k, None]])
            if rng.random() < 0.25:
                # wrapped low-level error: `raise X from Y` (explicit cause) or raised while handling Y (implicit context)
                p["chain"] = rng.choice(["cause", "cause", "context"]) + ":" + rng.choice(["ValueError", "KeyError", "OSError", "ZeroDivisionError"])
            r = rng.random()
            if r < 0.5:
                p["raises"] = []
            elif r < 0.7:
                p["raises"] = [p["exc"]]
            elif r < 0.8:
                p["raises"] = ["Exception"]
            elif r < 0.9:
                p["raises"] = [SUPER.get(p["exc"], p["exc"]), "CustomParseError"]
            else:
                p["raises"] = ["OSError" if p["exc"] != "OSError" else "ValueError", p["exc"]]
        else:
            # raises() declared although the payload succeeds: must make no difference
            if rng.random() < 0.2:
                p["raises"] = [rng.choice(CAPTURABLE)]
        if by_path:
            p["raises"] = []
        if p["behave"] == "ok" and rng.random() < 0.04 and not by_path:
            # the function RETURNS an exception instance as its outcome; declared in raises() or not, it is an outcome
            name = rng.choice(["ValueError", "KeyError", "OSError", "CustomParseError", "RecursionError", "LookupError"])
            p["retexc"] = [name, rng.choice([[], [f"finding{k}"], ["two", k]])]
            p["raises"] = rng.choice([[name], [name], [SUPER.get(name, "Exception")], ["Exception"], [], ["ZeroDivisionError"]])
        if rng.random() < 0.03 and not by_path and not p.get("retexc"):
            # the outcome (or the captured exception) cannot be pickled: with a process pool the loop may raise a pickling
            # error, but it must still not hand out anything twice or wrong
            p["nopickle"] = "outcome" if p["behave"] == "ok" else "exception"
            p.pop("chain", None)
        if p["behave"] == "raise" and p["raises"] and p["cls"] == "plain" and rng.random() < 0.2:
            # the declaration depends on state that the function changes before it fails (a pragma found in the input)
            p["raises_late"] = list(p["raises"])
            p["raises"] = [rng.choice(["OSError", "ZeroDivisionError", "CustomParseError"])]
        payloads.append(p)
    if strp:
        for p in payloads:
            p["cls"] = "plain"
            if sp.random() < 0.3:
                p["latin1"] = True
    spec = {
        "property": PROP,
        "strpayloads": strp,
        "config": config,
        "entry": entry,
        "pool": pool,
        "max_workers": max_workers,
        "cpu_count": cpu_count,
        "container": rng.choice(["list", "list", "list", "tuple", "iterator", "generator"]),
        "consumer": rng.choice(["stream", "keep"]),
        "pickle": bug.random() < 0.5,
        "pickable": rng.choice(["identity", "identity", "str"]),
        "extra_args": rng.choice([[], [], [1], ["a", 2]]) if entry != "processing_loop" else [],
        "extra_kwargs": rng.choice([{}, {}, {"kw": 1}, {"a": "b", "c": [1]}]),
        "reraise": False,
        "summary": rng.random() < 0.5,
        "verbose": rng.random() < 0.3,
        "payloads": payloads,
        "faults": {"slow": sorted(rng.sample(range(n), k=min(n, rng.choice([0, 0, 1, 2])))) if n else []},
        "knobs": {"tick_max": bug.choice([0, 1, 1, 2, 3, 8]), "fresh_worker_state": bug.random() < 0.5},
    }
    if rng.random() < 0.15:
        # an earlier run in the same interpreter that its consumer stopped early through the stop handle of a Result
        spec["earlier"] = {"n": rng.choice([2, 3, 5]), "stop_after": rng.choice([0, 1, 2]), "parallel": rng.random() < 0.7}
    if config == "uncaptured" and n:
        # at least one payload whose exception the loop is NOT asked to capture
        k = rng.randrange(n)
        p = payloads[k]
        mode = rng.choice(["runtime", "outside", "reraise"])
        p["behave"] = "raise"
        p["exc_args"] = [f"uncaptured{k}"]
        if mode == "runtime":
            p["exc"] = rng.choice(RUNTIME_FAMILY)
            p["raises"] = []
        elif mode == "outside" and not by_path:
            p["exc"] = "ValueError"
            p["raises"] = ["KeyError"]
        else:
            p["exc"] = rng.choice(CAPTURABLE)
            p["raises"] = []
            spec["reraise"] = True
    # payload lists as callers really have them: the same payload object listed twice, two payloads that compare equal,
    # two different payloads that name the same path (a file processed under two option sets).  "One result per payload"
    # is per list entry.  Drawn from a stream of its own so that the rest of the spec stays what it was.
    ev = random.Random(derive(seed, "environment"))
    if ev.random() < 0.25:
        spec["knobs"]["caller_is_mp_child"] = True
    tk = random.Random(derive(seed, "think"))
    if tk.random() < 0.05:
        spec["knobs"]["consumer_think_ns"] = tk.choice([10**9, 600 * 10**9, 2400 * 10**9, 7200 * 10**9])  # 1 s .. 2 h per result
    cb = random.Random(derive(seed, "bodies"))
    if pool == "thread" and cb.random() < 0.6:
        spec["knobs"]["concurrent_bodies"] = cb.choice([2, 4, 4, 10])  # mean number of lines a body runs before another may
        if spec["knobs"]["tick_max"] == 0:
            spec["knobs"]["tick_max"] = 1
    dr = random.Random(derive(seed, "dups"))
    if n >= 2 and dr.random() < 0.12:
        for _ in range(dr.choice([1, 1, 2])):
            j = dr.randrange(1, n)
            i = dr.randrange(0, j)
            if dr.random() < 0.5 or by_path:
                if payloads[i].get("dup") or payloads[j].get("dup") or "path_of" in payloads[j]:
                    continue
                payloads[j] = dict(copy.deepcopy(payloads[i]), dup=dr.choice(["same", "equal"]))
            elif "dup" not in payloads[j] and "dup" not in payloads[i]:
                payloads[j]["path_of"] = payloads[i]["key"]
    return spec


def is_captured(spec: dict, p: dict) -> bool:
    """Does the statement of C18 cover this payload's behaviour (the loop is asked to capture it)?"""
    if p["behave"] == "ok":
        return True
    if spec["reraise"]:
        return False
    ecls = EXC[p["exc"]]
    if issubclass(ecls, RuntimeError) and not issubclass(ecls, RecursionError):
        return False
    names = p["raises"] if p.get("raises_late") is None else p["raises_late"]  # what raises() says when the exception occurs
    rs = [EXC[n] for n in names]
    if rs and not any(issubclass(ecls, r) for r in rs):
        return False
    return True


def expected(spec: dict, p: dict):
    pick = PICKABLE[spec["pickable"]] or (lambda x: x)
    if p["behave"] == "ok":
        out = p["value"] if p.get("ret") == "raw" else [p["value"], list(spec["extra_args"]), sorted(spec["extra_kwargs"].items())]
        if p.get("retexc"):
            out = EXC[p["retexc"][0]](*p["retexc"][1])
        if p.get("nopickle"):
            out = Opaque(out)
        return canon(pick(out)), None
    return canon(pick(None)), [EXC[p["exc"]].__name__, canon(tuple(EXC[p["exc"]](*p["exc_args"]).args))]


_ADDR = __import__("re").compile(r"0x[0-9a-fA-F]{6,}")


def canon(x):
    # memory addresses (repr of a function inside a pickling error, of an object without its own repr) differ from
    # process to process: they are masked, so that event logs and violation details are a function of the seed alone
    return _ADDR.sub("0x#", json.dumps(x, sort_keys=True, default=repr))


def build_payloads(spec: dict):
    _ensure_classes()
    out = []
    if spec["entry"] in FILE_ENTRIES or spec.get("strpayloads"):
        # legacy protocol: payloads are path strings of real files (read again by the summary)
        import os

        os.makedirs("legacy", exist_ok=True)
        _LEGACY.clear()
        for p in spec["payloads"]:
            name = f"file{p['key']:02d}.txt"
            path = os.path.join("legacy", name)
            if p.get("latin1"):
                name = f"latin{p['key']:02d}.txt"
                path = os.path.join("legacy", name)
                if not os.path.exists(path):
                    with open(path, "wb") as f:
                        f.write(f"caf\xe9 {p['key']}\n".encode("latin-1"))
            elif not os.path.exists(path):
                with open(path, "w") as f:
                    f.write(f"line {p['key']}\n// c\n\n")
            _LEGACY[name] = p
            if spec.get("strpayloads"):
                from tatsu.parproc.payload import StrPayload

                out.append(StrPayload(path))
            else:
                out.append(path)
        return out
    first = {}
    for p in spec["payloads"]:
        if p.get("dup") == "same" and p["key"] in first:
            out.append(first[p["key"]])  # the very same object, listed again
            continue
        path = Path(f"/sim/file{p.get('path_of', p['key']):02d}.txt")
        text = f"line {p['key']}\n// c\n\n"
        kw = dict(key=p["key"], behave=p["behave"], value=p["value"], exc=p["exc"],
                  exc_args=tuple(p["exc_args"]), raises_names=tuple(p["raises"]), ret=p.get("ret", "wrapped"), chain=p.get("chain"), deep=p.get("deep", 0),
                  raises_late=None if p.get("raises_late") is None else tuple(p["raises_late"]), nopickle=p.get("nopickle"),
                  retexc=None if not p.get("retexc") else (p["retexc"][0], tuple(p["retexc"][1])))
        if p["cls"] == "visual":
            out.append(VisPayload(path=path, payload=text, **kw))
        else:
            out.append(PlainPayload(path=path, payload=text, **kw))
        first.setdefault(p["key"], out[-1])
    return out


# ------------------------------------------------------------------------------- seam installation
class SimTime:
    def __init__(self, sim: Sim):
        self.sim = sim

    def thread_time(self):
        self.sim.now_ns += 1000
        return self.sim.now_ns / 1e9

    def time(self):
        return self.sim.now_ns / 1e9

    def __getattr__(self, name):
        raise HarnessError(f"tatsu.parproc.task used time.{name}: seam not covered")


class SimThreading:
    def Event(self):  # noqa: N802
        return execseam.new_event()


@contextmanager
def patched(env: execseam.ExecEnv | None, spec: dict, sim: Sim):
    import concurrent.futures as cf
    import multiprocessing as real_mp

    import tatsu.parproc  # noqa: F401

    m_pmap = sys.modules["tatsu.parproc.pmap"]
    m_parproc = sys.modules["tatsu.parproc.parproc"]
    m_task = sys.modules["tatsu.parproc.task"]
    m_visual = sys.modules["tatsu.parproc.visual"]
    saved = []

    def setattr_(obj, name, val):
        saved.append((obj, name, obj.__dict__.get(name, _MISSING) if hasattr(obj, "__dict__") else getattr(obj, name)))
        setattr(obj, name, val)

    execseam.SimEvent._registry.clear()
    execseam.SimEvent._env = env
    thread_mode = spec["pool"] == "thread"
    try:
        if env is not None:
            setattr_(cf, "ProcessPoolExecutor", execseam.make_pool_class(env, "process"))
            setattr_(cf, "ThreadPoolExecutor", execseam.make_pool_class(env, "thread"))
            setattr_(m_pmap, "as_completed", execseam.make_as_completed(env))
        setattr_(m_pmap, "HAS_MULTITHREADING_SUPPORT", 1 if thread_mode else 0)
        setattr_(m_parproc, "HAS_MULTITHREADING_SUPPORT", 1 if thread_mode else 0)
        setattr_(m_parproc, "multiprocessing", execseam.SimMultiprocessing(spec["cpu_count"]))
        setattr_(m_parproc, "threading", SimThreading())
        setattr_(real_mp, "cpu_count", lambda: spec["cpu_count"])
        # "am I a multiprocessing child?" is a fact about the environment, so the simulator answers it: yes inside the
        # body of a process-pool task, and for the caller of the loop whatever the spec says (an application that itself
        # runs in a multiprocessing.Process, a nested use inside a pool worker) - never what the batch runner happens to be
        _fake_parent = type("FakeParentProcess", (), {"name": "MainProcess", "pid": 1, "is_alive": lambda self: True})()
        _caller_is_child = bool(spec["knobs"].get("caller_is_mp_child"))
        setattr_(real_mp, "parent_process", lambda: _fake_parent if (_caller_is_child or (env is not None and env.in_worker_process > 0)) else None)
        setattr_(m_task, "memory_use", lambda: 0)
        setattr_(m_task, "time", SimTime(sim))
        setattr_(m_visual, "time", SimTime(sim))
        import threading as _th

        for _name, _val in list(m_task.__dict__.items()):
            if isinstance(_val, type(_th.Lock())):
                setattr_(m_task, _name, execseam.CoopLock())  # module-level locks must not block a baton-scheduled body for real
        if spec["entry"] == "processing_loop":
            import tatsu.barz as barz

            setattr_(barz, "BarRow", StubBarRow)
            setattr_(barz, "Multi", StubBarRow)
        yield
    finally:
        for obj, name, old in reversed(saved):
            if old is _MISSING:
                try:
                    delattr(obj, name)
                except AttributeError:
                    pass
            else:
                setattr(obj, name, old)
        execseam.SimEvent._env = None


_MISSING = object()


def _quiet(gen):
    """The library's own display writes cursor control sequences to stdout: keep them out of the check's output."""
    import contextlib
    import io

    buf = io.StringIO()
    while True:
        with contextlib.redirect_stdout(buf):
            try:
                r = next(gen)
            except StopIteration:
                return
        yield r


def call_entry(spec: dict, payloads, parallel: bool, sink: list):
    """Build the generator for the chosen public entry point."""
    import tatsu.parproc as pp

    pick = PICKABLE[spec["pickable"]]
    kw = dict(spec["extra_kwargs"])
    if pick is not None:
        kw["pickable"] = pick
    kw["parallel"] = parallel
    kw["reraise"] = spec["reraise"]
    args = list(spec["extra_args"])
    entry = spec["entry"]
    # the payloads as the caller has them: a list, a tuple, or something that can be walked only once
    cont = spec.get("container", "list")
    if cont == "tuple":
        payloads = tuple(payloads)
    elif cont == "iterator":
        payloads = iter(list(payloads))
    elif cont == "generator":
        payloads = (p for p in list(payloads))
    if entry == "parproc":
        return pp.parproc(work, payloads, *args, max_workers=spec["max_workers"], **kw)
    if entry == "parallel_proc":
        # legacy signature; no max_workers parameter of its own: it is forwarded through **kwargs
        if spec["max_workers"] is not None:
            kw["max_workers"] = spec["max_workers"]
        return pp.parallel_proc(payloads, work, *args, **kw)
    if entry == "processing_loop":
        # file names in, the library reads the files and builds VisualPayload objects, and (no progress object can be
        # passed) makes its own display, which is stubbed (tatsu.barz: a real thread with real sleeps, display only).
        # Extra positional arguments are not passed: this signature hands the first of them to the display parameter.
        return _quiet(pp.processing_loop(payloads, work, eprint=lambda *a, **k: sink.append(len(a)),
                                         summary=spec["summary"], verbose=spec["verbose"], usecolor=False,
                                         max_workers=spec["max_workers"], **kw))
    if entry == "visual_legacy":
        prog = StubProgress()
        return pp.parproc_visual(
            work, payloads, prog, *args,
            eprint=lambda *a, **k: sink.append(len(a)),
            summary=spec["summary"], verbose=spec["verbose"], usecolor=False,
            max_workers=spec["max_workers"], **kw,
        )
    if entry == "parproc_visual":
        prog = StubProgress()
        return pp.parproc_visual(
            work, payloads, prog, *args,
            eprint=lambda *a, **k: sink.append(len(a)),
            summary=spec["summary"], verbose=spec["verbose"], usecolor=False,
            max_workers=spec["max_workers"], **kw,
        )
    raise HarnessError(f"unknown entry {entry}")


def _key_of_task(args):
    if not args:
        return None
    pl = getattr(args[0], "payload", None)
    k = getattr(pl, "key", None)
    if k is None and pl is not None and hasattr(pl, "path"):
        m = __import__("re").search(r"(?:file|latin)(\d+)\.txt$", str(pl.path))
        k = int(m.group(1)) if m else None
    return k


def observe(r) -> tuple:
    """(key, outcome, exception) of one yielded Result, canonical."""
    key = getattr(r.payload, "key", None)
    if key is None and not isinstance(r.payload, (str, Path)) and hasattr(r.payload, "path"):
        # processing_loop: the payload object was built by the library from the file name; it must carry that file's text
        m = __import__("re").search(r"(?:file|latin)(\d+)\.txt$", str(r.payload.path))
        key = int(m.group(1)) if m else None
        if key is not None and getattr(r.payload, "payload", None) != f"line {key}\n// c\n\n":
            key = f"{key}:wrong-text"
    if key is None and isinstance(r.payload, (str, Path)):
        m = __import__("re").search(r"(?:file|latin)(\d+)\.txt$", str(r.payload))  # legacy entry: the payload is given back as its path
        key = int(m.group(1)) if m else None
    exc = None
    if r.exception is not None:
        exc = [type(r.exception).__name__, canon(tuple(r.exception.args))]
    return key, canon(r.outcome), exc


# ------------------------------------------------------------------------------- one run
class RunResult:
    __slots__ = ("violation", "digest", "decisions", "probes", "faults", "nontrivial", "state_sig",
                 "steps", "sim_ns", "events", "harness_error", "extra")

    def __init__(self):
        self.violation = None
        self.digest = ""
        self.decisions = []
        self.probes = {}
        self.faults = {}
        self.nontrivial = False
        self.state_sig = ""
        self.steps = 0
        self.sim_ns = 0
        self.events = []
        self.harness_error = None
        self.extra = {}


def window_relation(spec):
    n = len(spec["payloads"])
    w = 1 + (spec["max_workers"] or spec["cpu_count"])
    return "n<w" if n < w else ("n=w" if n == w else "n>w")


_MODULE_CODE: dict = {}


def fresh_modules():
    """Module-level state of the code under test must not survive from one run into the next (a run has to be a pure
    function of its seed, or minimisation and replay break): the function-only modules of tatsu.parproc are re-executed
    in place before every run.  result.py / payload.py / summary.py only define data classes and keep their identity."""
    import tatsu.parproc  # noqa: F401

    for name in ("tatsu.parproc.task", "tatsu.parproc.pmap", "tatsu.parproc.parproc", "tatsu.parproc.visual", "tatsu.parproc.legacy"):
        mod = sys.modules.get(name)
        if mod is None:
            continue
        code = _MODULE_CODE.get(name)
        if code is None:
            with open(mod.__file__, encoding="utf-8") as f:
                code = _MODULE_CODE[name] = compile(f.read(), mod.__file__, "exec")
        exec(code, mod.__dict__)  # noqa: S102
    import tatsu.parproc as pp

    # the package re-exports these by value
    pp.parproc = sys.modules["tatsu.parproc.parproc"].__dict__["parproc"]
    pp.parallel_proc = sys.modules["tatsu.parproc.legacy"].__dict__["parallel_proc"]
    pp.processing_loop = sys.modules["tatsu.parproc.legacy"].__dict__["processing_loop"]
    pp.parproc_visual = sys.modules["tatsu.parproc.visual"].__dict__["parproc_visual"]


def run_earlier_call(spec, env, sim, Result):
    """An earlier, unrelated parproc() run in the same interpreter, ended by its consumer through `result.stop.set()`
    (the documented way to stop early) and then abandoned.  Nothing about it is judged; the run under test comes after it."""
    import tatsu.parproc as pp

    e = spec["earlier"]
    _ensure_classes()
    pls = [PlainPayload(path=Path(f"/sim/earlier{k}.txt"), payload="x\n", key=1000 + k, behave="ok", value=k, exc=None, exc_args=(), raises_names=())
           for k in range(e["n"])]
    gen = pp.parproc(work, pls, parallel=e["parallel"], max_workers=spec["max_workers"])
    got = 0
    try:
        for r in gen:
            env.tick("earlier")
            got += 1
            if got > e["stop_after"] and isinstance(r, Result):
                r.stop.set()
                sim.probe("earlier_run_stopped_by_consumer")
                break
    except execseam.Blocked:
        pass
    finally:
        try:
            gen.close()
        except execseam.Blocked:
            pass
    sim.log("earlier-run", got)


def run(spec: dict, decider: Decider, keep_events: bool = False) -> RunResult:
    fresh_modules()
    from tatsu.parproc.result import Result

    rr = RunResult()
    sim = Sim(decider, step_cap=20_000, keep_events=keep_events)
    payloads = build_payloads(spec)
    n = len(payloads)
    env = execseam.ExecEnv(
        sim,
        tick_max=spec["knobs"]["tick_max"],
        do_pickle=spec["pickle"],
        slow_keys=spec["faults"]["slow"],
        keyof=lambda args: _key_of_task(args),
    )
    viol = None
    mult = Counter(p["key"] for p in spec["payloads"])  # how often each payload is in the list
    if any(v > 1 for v in mult.values()):
        sim.probe("payload_listed_twice")
    if any("path_of" in p for p in spec["payloads"]):
        sim.probe("two_payloads_one_path")
    got: list[tuple] = []
    kept: list[tuple] = []
    raised = None
    sink: list = []
    env.fresh_worker_state = spec["knobs"].get("fresh_worker_state", False)
    if spec["pool"] == "thread" and spec["knobs"].get("concurrent_bodies"):
        # a thread pool runs its task bodies concurrently in ONE interpreter: they interleave between any two lines
        task_py = sys.modules["tatsu.parproc.task"].__file__
        env.concurrent_bodies = True
        env.fresh_worker_state = False
        env.gap_mean = spec["knobs"]["concurrent_bodies"]
        env.relevant = lambda code: code.co_filename == task_py or (code.co_filename == __file__ and code.co_name == "work")
        sim.probe("thread_pool_bodies_interleaved")
    limit_before = sys.getrecursionlimit()
    think_ns = spec["knobs"].get("consumer_think_ns", 0)
    if think_ns:
        sim.probe("slow_consumer")
    try:
        with patched(env, spec, sim):
            if spec.get("earlier"):
                run_earlier_call(spec, env, sim, Result)
            gen = call_entry(spec, payloads, True, sink)
            try:
                it = iter(gen)
                while True:
                    env.tick("consumer")
                    if think_ns and got:
                        sim.now_ns += think_ns  # the consumer works on what it was handed (writes a report, asks a person)
                    try:
                        r = next(it)
                    except StopIteration:
                        break
                    if not isinstance(r, Result):
                        continue
                    o = observe(r)
                    sim.log("yield", o[0], o[1], o[2])
                    got.append(o)
                    if spec.get("consumer") == "keep":
                        kept.append((r, o))  # a consumer that collects the results and reads them when the loop is over
                    if sum(1 for g in got if g[0] == o[0]) > mult.get(o[0], 1):
                        raise Violation("duplicate", f"payload {o[0]} yielded {sum(1 for g in got if g[0] == o[0])} times, listed {mult.get(o[0], 0)} times", "dup")
                    if len(got) > n:
                        raise Violation("count", f"{len(got)} results for {n} payloads", "extra")
            except execseam.Blocked as e:
                raise Violation("blocked", str(e), "hang") from None
            except Violation:
                raise
            except HarnessError:
                raise
            except Exception as e:  # noqa: BLE001  exception out of the loop itself
                raised = e
                sim.log("raised", type(e).__name__, canon(tuple(getattr(e, "args", ()))))
        # ---- sequential reference (real code, parallel=False) on equal payloads
        seq: list[tuple] = []
        seq_raised = None
        with patched(None, spec, Sim(Decider(seed=0), keep_events=False)):
            try:
                for r in call_entry(spec, build_payloads(spec), False, []):
                    if isinstance(r, Result):
                        seq.append(observe(r))
            except Exception as e:  # noqa: BLE001
                seq_raised = e
        # a result belongs to the consumer once it has been handed out: it must still say the same when read later
        for r, o in kept:
            again = observe(r)
            if again != o:
                raise Violation("content", f"payload {o[0]}: result read again after the loop says {again[1:]}, said {o[1:]} when it was yielded", "changed-after-yield")
        if kept:
            sim.probe("results_read_again_after_the_loop")
        truth = {p["key"]: expected(spec, p) for p in spec["payloads"]}
        covered = {p["key"] for p in spec["payloads"] if is_captured(spec, p)}
        # a result the (simulated) worker could not pickle: the statement is silent about whether the loop then raises
        covered -= set(env.pickle_failed_keys)
        all_covered = len(covered) == len(truth)
        # content of whatever was yielded (both configurations)
        for key, out, exc in got:
            if key not in truth:
                raise Violation("garbage", f"result for unknown payload {key!r}", "unknown-key")
            if key in covered and (out, exc) != truth[key]:
                raise Violation("content", f"payload {key}: got {(out, exc)} expected {truth[key]}", "wrong-result")
        if all_covered:
            if raised is not None:
                raise Violation("raised", f"loop raised {type(raised).__name__}: {raised}", type(raised).__name__)
            if len(got) != n:
                missing = sorted((mult - Counter(g[0] for g in got)).elements())
                raise Violation("count", f"{len(got)} results for {n} payloads; missing {missing}", "lost")
            if seq_raised is not None:
                raise Violation("sequential-raised", f"{type(seq_raised).__name__}: {seq_raised}", "seq")
            if sorted(map(canon, seq)) != sorted(map(canon, got)):
                raise Violation("differs-from-sequential", f"parallel {sorted(got, key=repr)} sequential {sorted(seq, key=repr)}", "seq-diff")
            for key, out, exc in seq:
                if (out, exc) != truth.get(key):
                    raise Violation("sequential-content", f"payload {key}: sequential mode gave {(out, exc)} expected {truth.get(key)}", "seq-wrong")
        else:
            sim.probe("uncaptured_config")
            if raised is not None:
                sim.probe("uncaptured_raised_out_of_loop")
    except Violation as v:
        viol = v
    finally:
        env.abandon_bodies()
        sys.setrecursionlimit(limit_before)  # interpreter-wide: must not leak into the next run of this worker
    rr.violation = None if viol is None else {
        "clause": viol.clause, "detail": viol.detail,
        "signature": f"{PROP}:{viol.clause}:{spec['pool']},{window_relation(spec)}",
    }
    # ---- probes and measures
    if n == 0:
        sim.probe("empty_list")
    if n == 1:
        sim.probe("single_task_shortcut")
    if env.submitted > min(n, 1 + (spec["max_workers"] or spec["cpu_count"])) and spec["pool"] == "process":
        sim.probe("refill_happened")
    if any(g[2] for g in got):
        sim.probe("exception_captured")
        if got and got[-1][2]:
            sim.probe("captured_exception_yielded_last")
        if got and got[0][2]:
            sim.probe("captured_exception_yielded_first")
    if spec["pickle"]:
        sim.probe("pickle_round_trip")
    if spec["pool"] == "thread":
        sim.probe("thread_pool")
    sim.probe("entry_" + spec["entry"])
    for p in spec["payloads"]:
        if p["behave"] == "raise":
            sim.fault("payload_raises")
    if spec["faults"]["slow"]:
        sim.fault("slow_task", len(spec["faults"]["slow"]))
    rr.extra = {"max_inflight": env.max_inflight, "window": 1 + (spec["max_workers"] or spec["cpu_count"]),
                "submitted": env.submitted}
    if spec["pool"] == "process" and env.max_inflight > rr.extra["window"]:
        sim.probe("window_exceeded(info only)")
    rr.digest = sim.digest()
    rr.decisions = sim.decisions
    rr.probes = dict(sim.probes)
    rr.faults = dict(sim.faults)
    rr.steps = sim.steps
    rr.events = sim.events
    rr.nontrivial = n >= 2 and env.completed >= 2 and len(sim.decisions) >= 1
    rr.state_sig = derive(tuple((e[0], e[1]) for e in (sim.events if keep_events else [])), n) if keep_events else rr.digest
    return rr


# ------------------------------------------------------------------------------- shrinking
def shrink_candidates(spec: dict):
    """Smaller / simpler specs, most aggressive first."""
    ps = spec["payloads"]
    n = len(ps)

    def with_payloads(new):
        s = copy.deepcopy(spec)
        s["payloads"] = copy.deepcopy(new)
        remap: dict = {}
        for p in s["payloads"]:
            if p["key"] not in remap:
                remap[p["key"]] = len(remap)
                p.pop("dup", None)  # the first of its kind in the list
            p["key"] = remap[p["key"]]
        for p in s["payloads"]:
            if "path_of" in p:
                if p["path_of"] in remap:
                    p["path_of"] = remap[p["path_of"]]
                else:
                    del p["path_of"]
        s["faults"]["slow"] = [k for k in s["faults"]["slow"] if k < len(new)]
        return s

    if n > 1:
        yield with_payloads(ps[: n // 2])
        yield with_payloads(ps[n // 2:])
    for i in range(n):
        yield with_payloads(ps[:i] + ps[i + 1:])
    for i, p in enumerate(ps):
        if p["behave"] == "raise" and is_captured(spec, p):
            s = copy.deepcopy(spec)
            s["payloads"][i].update(behave="ok", exc=None, exc_args=[], raises=[])
            yield s
        if p["raises"]:
            s = copy.deepcopy(spec)
            s["payloads"][i]["raises"] = []
            if is_captured(s, s["payloads"][i]) == is_captured(spec, p):
                yield s
        if p["cls"] == "visual" and spec["entry"] != "parproc_visual":
            s = copy.deepcopy(spec)
            s["payloads"][i]["cls"] = "plain"
            yield s
        if p["value"] not in (0, None):
            s = copy.deepcopy(spec)
            s["payloads"][i]["value"] = 0
            yield s
        if p.get("nopickle"):
            s = copy.deepcopy(spec)
            s["payloads"][i].pop("nopickle")
            yield s
        if p.get("retexc"):
            s = copy.deepcopy(spec)
            s["payloads"][i].pop("retexc")
            yield s
        if p.get("ret") == "raw":
            s = copy.deepcopy(spec)
            s["payloads"][i].pop("ret")
            yield s
        if "path_of" in p:
            s = copy.deepcopy(spec)
            s["payloads"][i].pop("path_of")
            yield s
        if p.get("chain"):
            s = copy.deepcopy(spec)
            s["payloads"][i].pop("chain")
            yield s
        if p.get("raises_late") is not None:
            s = copy.deepcopy(spec)
            s["payloads"][i]["raises"] = s["payloads"][i].pop("raises_late")
            yield s
    for key, simple in (("entry", "parproc"), ("pool", "process"), ("pickle", False), ("pickable", "identity"), ("container", "list"),
                        ("extra_args", []), ("extra_kwargs", {}), ("summary", False), ("verbose", False)):
        if spec.get(key, simple) != simple:
            s = copy.deepcopy(spec)
            s[key] = simple
            if key == "entry":
                pass
            yield s
    if spec["faults"]["slow"]:
        s = copy.deepcopy(spec)
        s["faults"]["slow"] = []
        yield s
    if spec.get("earlier"):
        s = copy.deepcopy(spec)
        s.pop("earlier")
        yield s
    if spec["knobs"].get("fresh_worker_state"):
        s = copy.deepcopy(spec)
        s["knobs"]["fresh_worker_state"] = False
        yield s
    if spec["knobs"].get("consumer_think_ns"):
        s = copy.deepcopy(spec)
        del s["knobs"]["consumer_think_ns"]
        yield s
    if any(p.get("latin1") for p in ps):
        s = copy.deepcopy(spec)
        for p in s["payloads"]:
            p.pop("latin1", None)
        yield s
    if spec["knobs"].get("caller_is_mp_child"):
        s = copy.deepcopy(spec)
        del s["knobs"]["caller_is_mp_child"]
        yield s
    for i, p in enumerate(ps):
        if p.get("deep"):
            s = copy.deepcopy(spec)
            s["payloads"][i].pop("deep")
            yield s
    if spec["max_workers"] not in (None, 1):
        for mw in (1, spec["max_workers"] - 1):
            s = copy.deepcopy(spec)
            s["max_workers"] = mw
            yield s
    if spec["max_workers"] is None and spec["cpu_count"] > 1:
        s = copy.deepcopy(spec)
        s["cpu_count"] -= 1
        yield s
    if spec["knobs"]["tick_max"] > 1:
        s = copy.deepcopy(spec)
        s["knobs"]["tick_max"] = 1
        yield s


def spec_size(spec: dict) -> int:
    """Complexity measure for shrinking: JSON length plus penalties for every non-default knob."""
    n = len(canon(spec))
    n += 30 * (spec["entry"] != "parproc") + 30 * (spec["entry"] in FILE_ENTRIES) + 30 * (spec["pool"] != "process") + 20 * bool(spec["pickle"])
    n += 20 * (spec["pickable"] != "identity") + 10 * bool(spec["summary"]) + 10 * bool(spec["verbose"])
    n += 10 * spec["knobs"]["tick_max"] + 15 * (spec["max_workers"] or 0) + 5 * spec["cpu_count"] + 20 * bool(spec["knobs"].get("fresh_worker_state"))
    n += 10 * sum(1 for p in spec["payloads"] if p["cls"] == "visual")
    return n


COMPONENTS = {
    "real": ["tatsu.parproc.parproc.parproc", "tatsu.parproc.legacy.parallel_proc", "tatsu.parproc.visual.parproc_visual",
             "tatsu.parproc.legacy.processing_loop", "tatsu.parproc.summary.show_summary/show_result", "tatsu.parproc.pmap.active_pmap/executor_pmap/process_pmap/thread_pmap",
             "tatsu.parproc.task.taskproc/Task", "tatsu.parproc.result.Result", "tatsu.parproc.payload.VisualPayload",
             "pickle round trip of Task and Result (per-run knob)", "concurrent.futures.Future"],
    "stub": ["ProcessPoolExecutor/ThreadPoolExecutor (sim.execseam.SimPool: FIFO start, arbitrary completion order)",
             "concurrent.futures.as_completed (snapshot semantics re-implemented)", "multiprocessing.Manager().Event / threading.Event",
             "multiprocessing.cpu_count", "time.thread_time", "memory_use", "Progress / tatsu.barz.BarRow / Multi (display only)",
             "thread-pool worker threads (sim.execseam.BodyThread: real threads, one at a time, pre-empted at line events chosen by the scheduler; module locks of task.py cooperative)"],
}

EXPECTED_PROBES = ["refill_happened", "exception_captured", "captured_exception_yielded_first", "captured_exception_yielded_last", "pickle_round_trip", "thread_pool",
                   "result_could_not_be_pickled", "results_read_again_after_the_loop", "earlier_run_stopped_by_consumer", "empty_list", "single_task_shortcut", "uncaptured_config",
                   "thread_pool_bodies_interleaved", "task_body_ran_interleaved", "payload_listed_twice", "two_payloads_one_path", "slow_consumer", "entry_processing_loop"]

RULE = ("one case = (spec, schedule): spec generated from the run seed (entry point incl. processing_loop, pool kind, worker count, 0..12 (6 %: 16-64) payloads incl. repeated / equal entries and entries sharing a path, "
        "each returning or raising (chained / argument-less / unpicklable exceptions, unpicklable or falsy outcomes, deep recursion, raises() that changes while the function runs), raises() declaration, pickable, "
        "extra args, pickle knob, fresh-worker-state knob, slow tasks, slow consumer (virtual time against as_completed deadlines), events-per-seam knob, optionally an earlier run stopped by its consumer; thread pools: task bodies interleaved line by line (60 % of thread-pool runs)); "
        "schedule = every 'which event fires next / how many events at this seam / which done future is handed out' "
        "decision. Non-trivial: >=2 payloads, >=2 completions through the simulated pool and >=1 scheduling decision. "
        "Distinct: distinct SHA-256 digests of the event log (decisions, submit/start/complete/yield events with payload keys and results).")


# ------------------------------------------------------------------------------- fidelity: the real pool
def real_pool_run(spec: dict):
    """Run the spec through the *real* ProcessPoolExecutor (nothing patched).  Schedule-independent oracle."""
    from tatsu.parproc.result import Result

    import pickle

    payloads = build_payloads(spec)
    got = []
    gave_up = False
    try:
        for r in call_entry(spec, payloads, True, []):
            if isinstance(r, Result):
                got.append(observe(r))
                if len(got) > len(payloads) + 1:
                    return f"more results than payloads: {len(got)} for {len(payloads)} (stopped consuming)"
    except (pickle.PickleError, AttributeError, TypeError):
        if not any(p.get("nopickle") for p in spec["payloads"]):
            raise
        gave_up = True  # a result that cannot be pickled: the loop may raise; what it yielded must still be right
    truth = {p["key"]: expected(spec, p) for p in spec["payloads"]}
    keys = [g[0] for g in got]
    want = [p["key"] for p in spec["payloads"]]
    if Counter(keys) - Counter(want):
        return f"duplicate keys {sorted(keys)} for payloads {sorted(want)}"
    if gave_up:
        want = [k for k in want if k in keys]
        if Counter(want) - Counter(keys) and False:
            pass
    elif sorted(keys) != sorted(want):
        return f"keys {sorted(keys)} expected {sorted(want)}"
    for key, out, exc in got:
        if (out, exc) != truth[key]:
            return f"payload {key}: got {(out, exc)} expected {truth[key]}"
    return None


def post_batch(tier: str, seed: int, total: dict):
    """Cross-check of the executor stub's contract against the real process pool (never part of the verdict's
    deterministic replay: a disagreement is reported as a violation marked nondeterministic)."""
    import os
    import time

    from .runner import in_scratch

    k = 6 if tier == "quick" else 60
    t0 = time.time()
    done = 0
    problems = []

    def work():
        nonlocal done
        r = 0
        while done < k and r < 50 * k and time.time() - t0 < (20 if tier == "quick" else 240):
            s = derive(seed, "realpool", r)
            r += 1
            spec = gen_spec(s, config="captured")
            if spec["pool"] != "process" or len(spec["payloads"]) < 2:
                continue
            spec["max_workers"] = spec["max_workers"] or 2
            # in a child of its own (process group): a loop that never ends or a pool that never answers is killed
            from .runner import fork_call

            kind, val = fork_call(lambda spec=spec: real_pool_run(spec), timeout=30.0)
            if kind == "ok":
                msg = val
            elif kind == "err":
                msg = "raised " + val.strip().splitlines()[-1][:300]
            elif kind == "timeout":
                msg = "no answer within 30 s (hang)"
            else:
                msg = f"child died ({val})"
            done += 1
            if msg:
                problems.append({"seed": s, "spec": spec, "problem": msg})

    in_scratch(work)
    direct = []
    for p in problems[:3]:
        # a run through the real pool is not replayable by seed: reported directly, with the spec, never minimised
        import json as _json

        rdir = os.environ.get("VERIF_REPLAY_DIR") or os.path.join(os.path.dirname(os.path.dirname(os.path.abspath(__file__))), "replays")
        os.makedirs(rdir, exist_ok=True)
        path = os.path.join(rdir, f"{PROP}-realpool-{p['seed']}.json")
        with open(path, "w") as f:
            _json.dump({"property": PROP, "kind": "real ProcessPoolExecutor run (nondeterministic: not replayable by seed)", "spec": p["spec"],
                        "problem": p["problem"], "reproduce": "python -c 'from sim import c18_parproc as m, json; print(m.real_pool_run(json.load(open(PATH))[\"spec\"]))'"}, f, indent=1)
        sig = f"{PROP}:real-pool:nondeterministic"
        if "'NoneType' object cannot be interpreted as an integer" in p["problem"]:
            sig = f"{PROP}:real-pool:manager-proxy-connection"  # listed in known_findings.json
        direct.append({"signature": sig, "replay": path, "detail": p["problem"], "seed": p["seed"]})
    return {"real_pool_runs": done, "real_pool_disagreements": len(problems), "real_pool_wall_s": round(time.time() - t0, 1),
            "direct_violations": direct}
